"""In-memory stand-in for pathlib.Path, sufficient for FileSystemArtifactStore (C18).

Pure Python so that CrossHair can fork on it with symbolic node ids; validated against the real
pathlib in a temporary directory on a fixed corpus at every run (see validate())."""
from __future__ import annotations

import io
from typing import Any, Dict, List, Optional, Tuple


class MemFS:
    def __init__(self) -> None:
        self.dirs: List[Tuple[Any, ...]] = [()]
        self.files: List[List[Any]] = []  # [parts, content(bytes|str)]

    def find(self, parts: Tuple[Any, ...]) -> Optional[List[Any]]:
        for f in self.files:
            if _same_parts(f[0], parts):
                return f
        return None

    def is_dir(self, parts: Tuple[Any, ...]) -> bool:
        return any(_same_parts(d, parts) for d in self.dirs)


def _same_parts(a: Tuple[Any, ...], b: Tuple[Any, ...]) -> bool:
    if len(a) != len(b):
        return False
    for x, y in zip(a, b):
        if x != y:
            return False
    return True


def fnmatch_name(name: Any, pat: Any) -> bool:
    """fnmatch.fnmatchcase semantics (Python's fnmatch.translate), as a direct recursive matcher."""
    return _m(name, 0, pat, 0)


def _m(s: Any, i: int, p: Any, j: int) -> bool:
    ls, lp = len(s), len(p)
    while j < lp:
        c = p[j]
        if c == "*":
            # collapse consecutive stars
            while j < lp and p[j] == "*":
                j += 1
            if j == lp:
                return True
            for k in range(i, ls + 1):
                if _m(s, k, p, j):
                    return True
            return False
        if c == "?":
            if i >= ls:
                return False
            i += 1
            j += 1
            continue
        if c == "[":
            k = j + 1
            if k < lp and p[k] == "!":
                k += 1
            if k < lp and p[k] == "]":
                k += 1
            while k < lp and p[k] != "]":
                k += 1
            if k >= lp:
                # no closing bracket: literal '['
                if i >= ls or s[i] != "[":
                    return False
                i += 1
                j += 1
                continue
            body = p[j + 1:k]
            neg = False
            if len(body) > 0 and body[0] == "!":
                neg = True
                body = body[1:]
            if i >= ls:
                return False
            if len(body) == 0:
                # '[]' cannot happen (']' right after '[' is part of the set); '[!]' ... handled by scan above
                hit = False
            else:
                hit = _in_set(s[i], body)
            if hit == neg:
                return False
            i += 1
            j = k + 1
            continue
        if i >= ls or s[i] != c:
            return False
        i += 1
        j += 1
    return i == ls


def _in_set(ch: Any, body: Any) -> bool:
    """Character-set body with ranges, as fnmatch.translate builds it."""
    n = len(body)
    k = 0
    items: List[Tuple[Any, Any]] = []
    while k < n:
        if k + 2 < n and body[k + 1] == "-":
            items.append((body[k], body[k + 2]))
            k += 3
        else:
            items.append((body[k], body[k]))
            k += 1
    for lo, hi in items:
        if lo <= ch <= hi:
            return True
    return False


class _WFile(io.BytesIO):
    def __init__(self, entry: List[Any]) -> None:
        super().__init__()
        self._entry = entry

    def close(self) -> None:
        if not self.closed:
            self._entry[1] = self.getvalue()
        super().close()


class _WText(io.StringIO):
    def __init__(self, entry: List[Any]) -> None:
        super().__init__()
        self._entry = entry

    def close(self) -> None:
        if not self.closed:
            self._entry[1] = self.getvalue().encode()
        super().close()


class MemPath:
    FS = MemFS()

    def __init__(self, *args: Any) -> None:
        parts: Tuple[Any, ...] = ()
        for a in args:
            if isinstance(a, MemPath):
                parts = parts + a.parts
            else:
                parts = parts + (a,)
        self.parts = parts

    def __truediv__(self, other: Any) -> "MemPath":
        return MemPath(self, other)

    @property
    def name(self) -> Any:
        return self.parts[-1]

    @property
    def suffix(self) -> Any:
        name = self.parts[-1]
        i = name.rfind(".")
        if 0 < i < len(name) - 1:
            return name[i:]
        return ""

    @property
    def stem(self) -> Any:
        name = self.parts[-1]
        i = name.rfind(".")
        if 0 < i < len(name) - 1:
            return name[:i]
        return name

    @property
    def parent(self) -> "MemPath":
        return MemPath(*self.parts[:-1]) if len(self.parts) > 1 else self

    def with_name(self, name: Any) -> "MemPath":
        if not self.parts[-1]:
            raise ValueError("%r has an empty name" % (self,))
        if not name or "/" in name or name == ".":
            raise ValueError("Invalid name %r" % (name,))
        return MemPath(*(self.parts[:-1] + (name,)))

    def with_suffix(self, suffix: Any) -> "MemPath":
        # pathlib (3.12): the suffix must start with a dot and must not be a lone dot or contain a separator
        if "/" in suffix or (suffix and not suffix.startswith(".")) or suffix == ".":
            raise ValueError("Invalid suffix %r" % (suffix,))
        name = self.parts[-1]
        if not name:
            raise ValueError("%r has an empty name" % (self,))
        old = self.suffix
        if not old:
            name = name + suffix
        else:
            name = name[:-len(old)] + suffix
        return MemPath(*(self.parts[:-1] + (name,)))

    def exists(self) -> bool:
        return self.FS.is_dir(self.parts) or self.FS.find(self.parts) is not None

    def mkdir(self, parents: bool = False, exist_ok: bool = False) -> None:
        if self.exists():
            if not exist_ok:
                raise FileExistsError(str(self.parts))
            return
        for i in range(1, len(self.parts)):
            if not self.FS.is_dir(self.parts[:i]):
                if not parents:
                    raise FileNotFoundError(str(self.parts[:i]))
                self.FS.dirs.append(self.parts[:i])
        self.FS.dirs.append(self.parts)

    def unlink(self, missing_ok: bool = False) -> None:
        entry = self.FS.find(self.parts)
        if entry is None:
            if not missing_ok:
                raise FileNotFoundError(str(self.parts))
            return
        self.FS.files = [f for f in self.FS.files if f is not entry]

    def glob(self, pattern: Any) -> Any:
        if len(pattern) == 0:
            raise ValueError("Unacceptable pattern: ''")
        if "/" in pattern:
            raise NotImplementedError("stand-in: single-component patterns only")
        if "**" in pattern:
            if pattern == "**":
                raise NotImplementedError("stand-in: recursive pattern")
            raise ValueError("Invalid pattern: '**' can only be an entire path component")
        out = []
        wild = ("*" in pattern) or ("?" in pattern) or ("[" in pattern)
        n = len(self.parts)
        for f in self.FS.files:
            if len(f[0]) == n + 1 and _same_parts(f[0][:n], self.parts):
                if wild:
                    if fnmatch_name(f[0][n], pattern):
                        out.append(MemPath(*f[0]))
                elif f[0][n] == pattern:
                    out.append(MemPath(*f[0]))
        return iter(out)

    def open(self, mode: str = "r", **kw: Any) -> Any:
        entry = self.FS.find(self.parts)
        if "w" in mode:
            if not self.FS.is_dir(self.parts[:-1]):
                raise FileNotFoundError(str(self.parts))
            if entry is None:
                entry = [self.parts, b""]
                self.FS.files.append(entry)
            else:
                entry[1] = b""
            return _WFile(entry) if "b" in mode else _WText(entry)
        if entry is None:
            raise FileNotFoundError(str(self.parts))
        data = entry[1]
        return io.BytesIO(data) if "b" in mode else io.StringIO(data.decode())

    def __repr__(self) -> str:
        return "MemPath(%r)" % (self.parts,)


CORPUS_NAMES = ["a.pickle", "a.b.pickle", "a.json", "ab.pickle", "b.pickle", "[.pickle", "a*.pickle", ".pickle",
                "a..json", "?.json", "!.json", "].pickle", "a]b.json", "-.json"]
CORPUS_PATTERNS = ["a.*", "a.b.*", "ab.*", "*.*", "?.*", "[.*", "[a].*", "[!a].*", "[ab.*", "a*.*", "..*", "a..*",
                   "[]].*", "[!].*", "[a-b].*", "].*", "!.*", "[a.]*", "[*].*", "a?.*", "[?.*", "*[.*", "b.*", "[!]].*",
                   "[!a.*", "a[.]*", "**.*", "a**", "[--].*", "[a-].*"]


def validate() -> Optional[str]:
    """Diff the stand-in against real pathlib on the corpus (run natively)."""
    import pathlib
    import tempfile

    with tempfile.TemporaryDirectory() as td:
        real = pathlib.Path(td)
        MemPath.FS = MemFS()
        mem = MemPath("root")
        mem.mkdir(parents=True)
        for n in CORPUS_NAMES:
            (real / n).write_bytes(b"x")
            with (mem / n).open("wb") as f:
                f.write(b"x")
        for pat in CORPUS_PATTERNS:
            try:
                r: Any = sorted(p.name for p in real.glob(pat))
            except Exception as e:  # noqa: BLE001
                r = type(e).__name__
            try:
                m: Any = sorted(p.name for p in mem.glob(pat))
            except Exception as e:  # noqa: BLE001
                m = type(e).__name__
            if r != m:
                return "glob(%r): pathlib %r, stand-in %r" % (pat, r, m)
        for n in CORPUS_NAMES + ["x", "x.", ".x", "a.b.c"]:
            if pathlib.PurePosixPath(n).suffix != MemPath("d", n).suffix:
                return "suffix(%r): pathlib %r, stand-in %r" % (n, pathlib.PurePosixPath(n).suffix, MemPath("d", n).suffix)
            pp = pathlib.PurePosixPath("d") / n
            mp = MemPath("d", n)
            if pp.stem != mp.stem:
                return "stem(%r): pathlib %r, stand-in %r" % (n, pp.stem, mp.stem)
            for suf in (".json", ".pkl", ""):
                if pp.with_suffix(suf).name != mp.with_suffix(suf).name:
                    return "with_suffix(%r, %r): pathlib %r, stand-in %r" % (n, suf, pp.with_suffix(suf).name, mp.with_suffix(suf).name)
            if pp.with_name("q.r").name != mp.with_name("q.r").name or pp.parent.name != mp.parent.name:
                return "with_name/parent(%r)" % (n,)
    MemPath.FS = MemFS()
    return None
