"""Virtual asyncio event loop (DESIGN §1.2).

The real ``asyncio.BaseEventLoop`` machinery (ready FIFO, timer heap, ``_run_once``,
Task/Future/Condition/Event) runs unmodified.  Replaced: the clock (an integer
virtual time that may be symbolic), the selector (advances the clock; an idle
loop with nothing scheduled raises ``Deadlock``), and ``run_in_executor`` (a timer
that fires after the node's duration and then calls the function on the loop).
"""
from __future__ import annotations

import asyncio
import weakref
import asyncio.base_events
import concurrent.futures
from typing import Any, Callable, List, Optional

from .driver import cf_guard, is_control_flow


HOLD = object()


class Deadlock(BaseException):
    """Loop idle, nothing scheduled, the awaited future still pending."""


class Livelock(BaseException):
    """Iteration cap exceeded."""


class _Selector:
    def __init__(self, loop: "VLoop") -> None:
        self.loop = loop

    def select(self, timeout: Optional[Any] = None) -> list:
        loop = self.loop
        if timeout is None:
            raise Deadlock()
        if timeout > 0:
            loop._vtime = loop._vtime + timeout
        return []

    def close(self) -> None:
        pass


class _OrdTask(asyncio.Task):  # type: ignore[type-arg]
    """A task whose hash is its creation number on the loop: plain sets / WeakSets of tasks then iterate in an order
    that is the same in the symbolic and the concrete execution of a path (addresses are not)."""
    _vseq = 0

    def __init__(self, coro: Any, *, loop: Any, **kw: Any) -> None:
        loop._task_seq += 1
        self._vseq = loop._task_seq  # before the base initialiser, which already puts the task into a WeakSet
        super().__init__(coro, loop=loop, **kw)

    def __hash__(self) -> int:
        return self._vseq


class VLoop(asyncio.base_events.BaseEventLoop):
    def __init__(self, *, max_iterations: int = 2000, tick: int = 0,
                 duration_of: Optional[Callable[[], Any]] = None) -> None:
        super().__init__()
        self._vtime: Any = 0
        self._clock_resolution = 1
        self._selector = _Selector(self)
        self.iterations = 0
        self.max_iterations = max_iterations
        self.tick = tick
        # weak: the harness must not keep a task alive that the engine has let go of (a task nobody references is
        # destroyed by CPython when it finishes, and its exception with it)
        self._task_refs: List[Any] = []
        self._task_seq = 0
        self._kept: List[Any] = []
        self.errors: List[dict] = []
        self.duration_of = duration_of  # callable giving the duration for the current executor submission
        self.on_iteration: Optional[Callable[["VLoop"], None]] = None
        self.set_task_factory(self._factory)
        self.slow_callback_duration = 10 ** 9

    # -- environment ---------------------------------------------------------
    def time(self) -> Any:  # type: ignore[override]
        return self._vtime

    def _process_events(self, event_list: list) -> None:
        pass

    def _write_to_self(self) -> None:
        pass

    @staticmethod
    def _factory(loop: "VLoop", coro: Any, **kw: Any) -> asyncio.Task:
        task = _OrdTask(coro, loop=loop, **kw)
        loop._task_refs.append(weakref.ref(task))
        return task

    @property
    def tasks(self) -> List[asyncio.Task]:
        # not under tracing: CrossHair patches weakref.ref.__call__ with a full gc.collect() per dereference
        from crosshair.tracers import NoTracing, is_tracing
        import contextlib

        with (NoTracing() if is_tracing() else contextlib.nullcontext()):
            return [t for t in (r() for r in self._task_refs) if t is not None]

    @property
    def n_created(self) -> int:
        return self._task_seq

    def call_exception_handler(self, context: dict) -> None:  # type: ignore[override]
        exc = context.get("exception")
        if exc is not None and is_control_flow(exc):
            cf_guard.note(exc)
        # like the default handler, keep no reference to the future/task/handle: storing the context itself would
        # resurrect a task that is being destroyed and keep it in any weak registry of the code under test
        self.errors.append({"message": context.get("message"), "exception": exc})

    def _run_once(self) -> None:  # type: ignore[override]
        self.iterations += 1
        if self.iterations > self.max_iterations:
            raise Livelock()
        if self.on_iteration is not None:
            self.on_iteration(self)
        if self.tick:
            self._vtime = self._vtime + self.tick
        super()._run_once()

    def run_in_executor(self, executor: Any, func: Callable[..., Any], *args: Any) -> asyncio.Future:  # type: ignore[override]
        """Executor stub: complete after the submitter's duration, call func then."""
        fut = self.create_future()
        dur = self.duration_of() if self.duration_of is not None else 0
        if dur is HOLD:
            return fut  # held open: never completes

        def complete() -> None:
            if fut.cancelled():
                # concurrent.futures semantic: a running work item cannot be cancelled; its
                # result is dropped by the chained asyncio future.  The body still runs.
                try:
                    func(*args)
                except BaseException as e:  # noqa: BLE001
                    if is_control_flow(e):
                        cf_guard.note(e)
                return
            try:
                r = func(*args)
            except BaseException as e:  # noqa: BLE001
                if is_control_flow(e):
                    cf_guard.note(e)
                    raise
                fut.set_exception(e)
            else:
                fut.set_result(r)

        self.call_later(dur, complete)
        return fut

    # -- helpers for harnesses --------------------------------------------------
    def run_until_complete(self, future: Any) -> Any:  # type: ignore[override]
        try:
            return super().run_until_complete(future)
        finally:
            # once the loop has stopped, whatever is still alive stays alive until the observation has been taken (a
            # deadlocked set of tasks is cyclic garbage as soon as the frames above are unwound)
            self._kept = self.tasks

    def run_to_verdict(self, coro: Any) -> tuple:
        """Run coro; returns (kind, payload): ('done', result) | ('raised', exc) |
        ('deadlock', None) | ('livelock', None)."""
        try:
            r = self.run_until_complete(coro)
            return ("done", r)
        except Deadlock:
            return ("deadlock", None)
        except Livelock:
            return ("livelock", None)
        except BaseException as e:  # noqa: BLE001
            if is_control_flow(e):
                raise
            return ("raised", e)

    def drain(self, cap: int = 200) -> str:
        """Drive the loop until quiescent (nothing ready, nothing scheduled)."""
        n = 0
        while self._ready or self._scheduled:
            n += 1
            if n > cap:
                return "livelock"
            try:
                # one iteration, the way run_forever does it
                self._run_once_outside()
            except Livelock:
                return "livelock"
        return "quiescent"

    def _run_once_outside(self) -> None:
        import asyncio.events as ev
        old = ev._get_running_loop()
        ev._set_running_loop(self)
        try:
            self._run_once()
        finally:
            ev._set_running_loop(old)

    def shutdown(self) -> None:
        """Drop everything still queued (no callbacks run), close pending coroutines now (deterministically,
        natively) instead of at some later garbage collection, and close the loop."""
        from crosshair.tracers import NoTracing, is_tracing
        import contextlib

        with (NoTracing() if is_tracing() else contextlib.nullcontext()):
            self._ready.clear()
            self._scheduled.clear()
            for t in self.tasks:
                if not t.done():
                    t._log_destroy_pending = False  # type: ignore[attr-defined]
                    try:
                        t.get_coro().close()
                    except BaseException:  # noqa: BLE001
                        pass
            self._ready.clear()
            self._scheduled.clear()
            self._kept = []
            try:
                self.close()
            except BaseException:  # noqa: BLE001
                pass
