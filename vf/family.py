"""Symbolic family of declarations for the builder / viewer properties (C15, C16, C20).

The *program* is the quantified object: which node each parameter is bound to and which mark kind it
uses are symbolic selectors, case-split by the solver; classes are then annotated and the real
build_dag runs natively on the concrete declarations."""
from __future__ import annotations

from typing import Any, Dict, List, Optional, Tuple

from .harness import untraced

# mark descriptions: ('in', j) | ('sw', s, ((label, a), (label, b)), name) | ('oneof', (a, b)) | ('rec', s, d, max_iter)
Mark = Tuple[Any, ...]


def program(sym: Any) -> List[List[Tuple[str, Mark]]]:
    """5 nodes N0..N4 (N0 input, N4 output); returns per node its [(param name, mark)]."""
    prog: List[List[Tuple[str, Mark]]] = [[] for _ in range(5)]
    prog[1] = [("a", ("in", 0))]
    prog[2] = [("a", ("in", sym.choice("n2_src", 2)))]
    k3 = sym.choice("n3_kind", 4)
    if k3 == 0:
        prog[3] = [("a", ("in", sym.choice("n3_src", 3)))]
    elif k3 == 1:
        o = sym.choice("n3_order", 2)
        prog[3] = [("a", ("sw", 0, (("l1", 1 + o), ("l2", 2 - o)), "sw3"))]
    elif k3 == 2:
        o = sym.choice("n3_order", 2)
        prog[3] = [("a", ("oneof", (1 + o, 2 - o)))]
    else:
        prog[3] = [("a", ("rec", sym.choice("n3_start", 2), 2, 2))]
    k4 = sym.choice("n4_kind", 4)
    if k4 == 0:
        m: Mark = ("in", sym.choice("n4_src", 4))
    elif k4 == 1:
        s = sym.choice("n4_sw", 4)
        rest = [x for x in range(4) if x != s]
        a = rest[sym.choice("n4_case_a", 3)]
        rest2 = [x for x in rest if x != a]
        b = rest2[sym.choice("n4_case_b", 2)]
        m = ("sw", s, (("l1", a), ("l2", b)), "sw4")
    elif k4 == 2:
        a = 1 + sym.choice("n4_cand_a", 3)
        rest = [x for x in (1, 2, 3) if x != a]
        b = rest[sym.choice("n4_cand_b", 2)]
        m = ("oneof", (a, b))
    else:
        pairs = [(s, d) for s in range(3) for d in range(s + 1, 4)]
        s, d = pairs[sym.choice("n4_rec", len(pairs))]
        m = ("rec", s, d, 2)
    prog[4] = [("x", m)]
    second = sym.choice("n4_second", 5) - 1
    if second >= 0:
        prog[4].append(("y", ("in", second)))
    # well-formed recurrent marks: the start node lies on a dependency path to the destination
    for i in (3, 4):
        for _, mk in prog[i]:
            if mk[0] == "rec" and mk[1] not in ancestors(prog, mk[2]):
                sym.assume(False)
    return prog


def targets(m: Mark) -> List[int]:
    if m[0] == "in":
        return [m[1]]
    if m[0] == "sw":
        return [m[1]] + [c for _, c in m[2]]
    if m[0] == "oneof":
        return list(m[1])
    return [m[2]]


def ancestors(prog: List[List[Tuple[str, Mark]]], node: int) -> List[int]:
    seen: List[int] = []
    stack = [node]
    while stack:
        c = stack.pop()
        for _, m in prog[c]:
            for t in targets(m):
                if t not in seen:
                    seen.append(t)
                    stack.append(t)
    return seen


def nid(i: int) -> str:
    return "processor__f%d" % i


def annotate(prog: List[List[Tuple[str, Mark]]], classes: List[type], reverse_params: bool = False) -> None:
    """Assign the engine's real marks to the static classes (native)."""
    from ml_pipeline_engine.dag_builders.annotation import marks as M

    with untraced():
        for i, params in enumerate(prog):
            ann: Dict[str, Any] = {}
            plist = list(reversed(params)) if reverse_params else list(params)
            for pname, m in plist:
                if m[0] == "in":
                    ann[pname] = M.Input(classes[m[1]])
                elif m[0] == "sw":
                    ann[pname] = M.SwitchCase(switch=classes[m[1]], cases=[(lab, classes[c]) for lab, c in m[2]],
                                              name=m[3])
                elif m[0] == "oneof":
                    ann[pname] = M.InputOneOf([classes[c] for c in m[1]])
                elif m[0] == "rec":
                    ann[pname] = M.RecurrentSubGraph(start_node=classes[m[1]], dest_node=classes[m[2]],
                                                     max_iterations=m[3])
            ann["additional_data"] = Optional[Any]
            classes[i].process.__annotations__ = ann


def reachable(prog: List[List[Tuple[str, Mark]]], out: int = 4) -> List[int]:
    seen = {out}
    stack = [out]
    while stack:
        c = stack.pop()
        for _, m in prog[c]:
            tg: List[int] = []
            if m[0] == "in":
                tg = [m[1]]
            elif m[0] == "sw":
                tg = [m[1]] + [c2 for _, c2 in m[2]]
            elif m[0] == "oneof":
                tg = list(m[1])
            elif m[0] == "rec":
                tg = [m[2]]
            for t in tg:
                if t not in seen:
                    seen.add(t)
                    stack.append(t)
        if not prog[c] and c != 0 and 0 not in seen:
            seen.add(0)
            stack.append(0)
    # one-of heads link the input node
    return sorted(seen)


def expected(prog: List[List[Tuple[str, Mark]]], inp: int = 0, out: int = 4) -> Dict[str, Any]:
    """The declared relation restricted to what the output needs, in canonical form."""
    nodes: Dict[str, Dict[str, Any]] = {}
    edges: Dict[Tuple[str, str], Dict[str, Any]] = {}
    node_map = set()
    reach = reachable(prog, out)

    def node(n: str) -> Dict[str, Any]:
        return nodes.setdefault(n, {})

    def edge(u: str, v: str, **attrs: Any) -> None:
        edges.setdefault((u, v), {}).update(attrs)

    uses_input = False
    for i in reach:
        node(nid(i))
        node_map.add(nid(i))
        if not prog[i] and i != inp:
            edge(nid(inp), nid(i))
            uses_input = True
        for pname, m in prog[i]:
            if m[0] == "in":
                edge(nid(m[1]), nid(i), kwarg_name=pname)
            elif m[0] == "sw":
                sw = "switch__" + m[3]
                node(sw)["is_switch"] = True
                edge(nid(m[1]), sw, is_switch=True)
                for lab, c in m[2]:
                    edge(nid(c), sw, case_branch=lab)
                edge(sw, nid(i), kwarg_name=pname)
            elif m[0] == "oneof":
                head = "oneof:%s:%s" % (nid(i), pname)
                node(head)["is_oneof"] = True
                node(head)["oneof_nodes"] = [nid(c) for c in m[1]]
                edge(nid(inp), head)
                uses_input = True
                for c in m[1]:
                    node(nid(c))["is_oneof_child"] = True
                    edge(nid(c), head)
                edge(head, nid(i), kwarg_name=pname)
            elif m[0] == "rec":
                node(nid(m[2]))["start_node"] = nid(m[1])
                node(nid(m[2]))["max_iterations"] = m[3]
                edge(nid(m[2]), nid(i), kwarg_name=pname)
    node_map.add(nid(inp))
    if uses_input or inp in reach:
        node(nid(inp))
    return {"nodes": nodes, "edges": edges, "node_map": sorted(node_map), "input": nid(inp), "output": nid(out)}


def canon(dag: Any) -> Dict[str, Any]:
    """Built DAG in the same canonical form (one-of head ids replaced by consumer+parameter)."""
    g = dag.graph
    ren: Dict[str, str] = {}
    for n in g.nodes:
        if g.nodes[n].get("is_oneof"):
            outs = list(g.successors(n))
            if len(outs) == 1:
                ren[n] = "oneof:%s:%s" % (outs[0], g.edges[n, outs[0]].get("kwarg_name"))

    def r(n: str) -> str:
        return ren.get(n, n)

    def key(k: Any) -> str:
        return k.value if hasattr(k, "value") else str(k)

    nodes = {r(n): {key(k): v for k, v in g.nodes[n].items()} for n in g.nodes}
    edges = {(r(u), r(v)): {key(k): val for k, val in g.edges[u, v].items()} for u, v in g.edges}
    return {"nodes": nodes, "edges": edges, "node_map": sorted(dag.node_map.keys()), "input": dag.input_node,
            "output": dag.output_node}


def diff(exp: Dict[str, Any], got: Dict[str, Any]) -> Optional[str]:
    for n in exp["nodes"]:
        if n not in got["nodes"]:
            return "missing_node:%s" % n
    for n in got["nodes"]:
        if n not in exp["nodes"]:
            return "extra_node:%s" % n
    for n, a in exp["nodes"].items():
        b = {k: v for k, v in got["nodes"][n].items() if v not in (None,)}
        a2 = dict(a)
        if a2 != b:
            return "node_attrs:%s:%s!=%s" % (n, sorted(a2.items()), sorted(b.items()))
    for e in exp["edges"]:
        if e not in got["edges"]:
            return "missing_edge:%s->%s" % e
    for e in got["edges"]:
        if e not in exp["edges"]:
            return "extra_edge:%s->%s" % e
    for e, a in exp["edges"].items():
        if a != got["edges"][e]:
            return "edge_attrs:%s->%s:%s!=%s" % (e[0], e[1], sorted(a.items()), sorted(got["edges"][e].items()))
    if exp["node_map"] != got["node_map"]:
        return "node_map:%s!=%s" % (exp["node_map"], got["node_map"])
    if exp["input"] != got["input"] or exp["output"] != got["output"]:
        return "input_output"
    return None


def declared_param_count(prog: List[List[Tuple[str, Mark]]], reach: List[int]) -> int:
    return sum(len(prog[i]) for i in reach)
