"""Static node classes for the builder/viewer family (C15, C16, C20).

They live in a real source file so that ``inspect.getsourcelines`` (used by the viewer) works; the
family harness assigns ``process.__annotations__`` per explored program."""
from __future__ import annotations

from typing import Any

from ml_pipeline_engine.node import ProcessorBase, RecurrentProcessor


def _mk(i: int, base: type, extra: dict) -> type:
    def process(self: Any, **kwargs: Any) -> Any:
        """family node body"""
        return 0

    process.__annotations__ = {}
    ns = {"process": process, "name": "f%d" % i, "verbose_name": "Family node %d" % i,
          "__doc__": "family node %d" % i, "__module__": __name__}
    ns.update(extra)
    return type("F%d" % i, (base,), ns)


class _Anchor:  # keeps inspect happy for dynamically created classes below
    pass


class F0(RecurrentProcessor):
    """family node 0"""
    name = "f0"
    verbose_name = "Family node 0"

    def process(self, **kwargs: Any) -> Any:
        return 0


class F1(RecurrentProcessor):
    """family node 1"""
    name = "f1"
    verbose_name = "Family node 1"

    def process(self, **kwargs: Any) -> Any:
        return 0


class F2(RecurrentProcessor):
    """family node 2"""
    name = "f2"
    verbose_name = "Family node 2"

    def process(self, **kwargs: Any) -> Any:
        return 0


class F3(RecurrentProcessor):
    """family node 3"""
    name = "f3"
    verbose_name = "Family node 3"

    def process(self, **kwargs: Any) -> Any:
        return 0


class F4(RecurrentProcessor):
    """family node 4"""
    name = "f4"
    verbose_name = "Family node 4"

    def process(self, **kwargs: Any) -> Any:
        return 0


class GenericBase(RecurrentProcessor):
    """generic base node (re-bound through build_node)"""
    name = "generic_base"
    verbose_name = "Generic base"

    def process(self, **kwargs: Any) -> Any:
        return 0


class CustomType(RecurrentProcessor):
    """a node with a user-defined node_type (docs/usage_examples.md uses 'ml_model')"""
    name = "custom"
    node_type = "ml_model"
    verbose_name = "Custom typed"

    def process(self, **kwargs: Any) -> Any:
        return 0


from ml_pipeline_engine.types import NodeBase, RecurrentProtocol  # noqa: E402


class Untyped(NodeBase, RecurrentProtocol):
    """a node deriving the bare NodeBase protocol: node_type is None (the viewer warns and skips its type)"""
    name = "f1"
    verbose_name = "Untyped"

    def process(self, **kwargs: Any) -> Any:
        return 0

    def next_iteration(self, data: Any) -> Any:
        from ml_pipeline_engine.types import Recurrent
        return Recurrent(data=data)


from ml_pipeline_engine.node.enums import NodeType as _NodeType  # noqa: E402


class EnumTyped(RecurrentProcessor):
    """a node whose node_type is the enum member itself (not its .value)"""
    name = "f1"
    verbose_name = "Enum typed"
    node_type = _NodeType.generic

    def process(self, **kwargs: Any) -> Any:
        return 0


CLASSES = [F0, F1, F2, F3, F4]
