"""Reference dataflow interpreter (DESIGN §1.4): demand-driven, pure, computes on the
same symbolic variables as the engine run, so 'engine value == reference value' is a
solver query, not a comparison of two numbers."""
from __future__ import annotations

from dataclasses import dataclass, field
from typing import Any, Dict, List, Optional, Set, Tuple

from .spec import (BASE_EXC, DEFAULT_OFFSET, E1, E2, KIND_NAMES, OK, REC_DATA_OFFSET, RET_NONE, RET_ZERO,
                   Behaviour, In, Node, OneOf, Rec, Spec, Sw, node_value)


@dataclass
class Val:
    v: Any


@dataclass
class Fail:
    causes: List[Tuple[Any, ...]]  # (node, kind, k) | (owner, 'oneof', idx) | (dest, 'rec') | (sw, 'nolabel')


@dataclass
class RecOut:
    data: Any
    kwargs: Dict[str, Any]


class RefFatal(BaseException):
    def __init__(self, node: str, k: int) -> None:
        super().__init__(node, k)
        self.node = node
        self.k = k


@dataclass
class RefResult:
    outcome: Any  # Val | Fail | ('fatal', node, k)
    invs: List[Tuple[str, int, Dict[str, Any]]]
    demanded: Set[str]
    defaults: List[Tuple[str, Dict[str, Any], Any]]
    final: Dict[str, Any]  # node -> final outcome
    epochs: Dict[str, int]
    winners: Dict[Tuple[str, int], Optional[str]]
    selected: Dict[str, Optional[str]]
    delivered: Dict[str, Dict[str, Any]]  # node -> kwargs of its last invocation
    oneof_tried: Dict[Tuple[str, int], List[str]] = field(default_factory=dict)

    def per_node(self) -> Dict[str, List[Tuple[int, Dict[str, Any]]]]:
        d: Dict[str, List[Tuple[int, Dict[str, Any]]]] = {}
        for n, k, kw in self.invs:
            d.setdefault(n, []).append((k, kw))
        return d


class Ref:
    def __init__(self, spec: Spec, beh: Behaviour, inputs: Optional[Dict[str, Any]] = None) -> None:
        self.spec = spec
        self.beh = beh
        self.inputs = dict(inputs if inputs is not None else beh.inputs())
        self.count: Dict[str, int] = {}
        self.rec_count: Dict[str, int] = {}
        self.memo: Dict[str, Any] = {}
        self.ad: Dict[str, Any] = {}
        self.invs: List[Tuple[str, int, Dict[str, Any]]] = []
        self.demanded: Set[str] = set()
        self.defaults: List[Tuple[str, Dict[str, Any], Any]] = []
        self.bad: List[Any] = []
        self.epochs: Dict[str, int] = {}
        self.winners: Dict[Tuple[str, int], Optional[str]] = {}
        self.selected: Dict[str, Optional[str]] = {}
        self.delivered: Dict[str, Dict[str, Any]] = {}
        self.oneof_tried: Dict[Tuple[str, int], List[str]] = {}
        self.rec_of: Dict[str, Rec] = {m.dest: m for m in spec.rec_marks()}

    # ------------------------------------------------------------------
    def run(self) -> RefResult:
        try:
            out: Any = self.eval(self.spec.output)
        except RefFatal as f:
            out = ("fatal", f.node, f.k)
        return RefResult(outcome=out, invs=self.invs, demanded=self.demanded, defaults=self.defaults,
                         final=dict(self.memo), epochs=self.epochs, winners=self.winners,
                         selected=self.selected, delivered=self.delivered, oneof_tried=self.oneof_tried)

    def eval(self, name: str) -> Any:
        if name in self.memo:
            return self.memo[name]
        out = self._eval_once(name)
        rm = self.rec_of.get(name)
        if rm is not None:
            iters = 0
            while isinstance(out, RecOut) and iters < rm.max_iter:
                for n in self.spec.subgraph_nodes(rm.start, rm.dest):
                    self.memo.pop(n, None)
                    self.epochs[n] = self.epochs.get(n, 0) + 1
                if out.data is None:
                    self.ad.pop(rm.start, None)  # next_iteration(None): the start node gets no additional_data
                else:
                    self.ad[rm.start] = out.data
                out = self._eval_once(name)
                iters += 1
            if isinstance(out, RecOut):
                nd = self.spec.by_name[name]
                if nd.use_default:
                    out = Val(self._default(nd, out.kwargs))
                else:
                    out = Fail([(name, "rec")])
        elif isinstance(out, RecOut):
            # a Recurrent result from a node no RecurrentSubGraph mark names: outside well-formed specs
            out = Fail([(name, "rec-unmarked")])
        self.memo[name] = out
        return out

    def _eval_once(self, name: str) -> Any:
        spec = self.spec
        self.demanded.add(name)
        nd = spec.by_name[name]
        kwargs: Dict[str, Any] = {}
        fails: List[Fail] = []
        if name == spec.input:
            kwargs = dict(self.inputs)
        # Readers outside a recurrent subgraph see the FINAL iteration's values (C03: never "a value from a
        # superseded iteration"): parameters that lead to a recurrent destination are resolved first, so that
        # every other reader is evaluated after the subgraph has finished iterating.
        order = sorted(range(len(nd.params)), key=lambda i: self._rec_rank(nd.params[i][1]))
        results: Dict[int, Any] = {}
        for idx in order:
            results[idx] = self._eval_mark(name, idx, nd.params[idx][1])
        for idx, (pname, m) in enumerate(nd.params):
            r = results[idx]
            if isinstance(r, Fail):
                fails.append(r)
            else:
                kwargs[pname] = r.v
        if name != spec.input and not nd.params:
            r = self.eval(spec.input)
            if isinstance(r, Fail):
                fails.append(r)
        if fails:
            causes: List[Tuple[Any, ...]] = []
            for f in fails:
                for c in f.causes:
                    if c not in causes:
                        causes.append(c)
            return Fail(causes)
        if nd.takes_ad and name in self.ad:
            kwargs["additional_data"] = self.ad[name]
        return self._invoke(nd, kwargs)

    def _rec_rank(self, m: Any) -> int:
        """0: a RecurrentSubGraph mark; 1: a mark whose sub-pipeline contains a recurrent destination; 2: others."""
        if isinstance(m, Rec):
            return 0
        if not self.rec_of:
            return 2
        tg: List[str] = []
        if isinstance(m, In):
            tg = [m.node]
        elif isinstance(m, Sw):
            tg = [m.switch] + [c for _, c in m.cases]
        elif isinstance(m, OneOf):
            tg = list(m.nodes)
        for t in tg:
            if t in self.rec_of or any(a in self.rec_of for a in self.spec.ancestors(t)):
                return 1
        return 2

    def _eval_mark(self, owner: str, idx: int, m: Any) -> Any:
        if isinstance(m, In):
            return self._as_value(self.eval(m.node))
        if isinstance(m, Rec):
            return self._as_value(self.eval(m.dest))
        if isinstance(m, Sw):
            r = self._as_value(self.eval(m.switch))
            if isinstance(r, Fail):
                return r
            label = r.v
            for lab, c in m.cases:
                if lab == label:
                    self.selected[m.name] = c
                    return self._as_value(self.eval(c))
            self.selected[m.name] = None
            return Fail([(m.name, "nolabel")])
        if isinstance(m, OneOf):
            tried: List[str] = []
            self.oneof_tried[(owner, idx)] = tried
            for c in m.nodes:
                tried.append(c)
                r = self._as_value(self.eval(c))
                if isinstance(r, Val):
                    self.winners[(owner, idx)] = c
                    return r
            self.winners[(owner, idx)] = None
            return Fail([(owner, "oneof", idx)])
        raise AssertionError(m)

    @staticmethod
    def _as_value(r: Any) -> Any:
        assert isinstance(r, (Val, Fail)), r
        return r

    def _default(self, nd: Node, kwargs: Dict[str, Any]) -> Any:
        v = node_value(self.spec, nd, self.beh.base(nd), kwargs, self.bad) + DEFAULT_OFFSET
        self.defaults.append((nd.name, dict(kwargs), v))
        return v

    def _invoke(self, nd: Node, kwargs: Dict[str, Any]) -> Any:
        attempts = nd.attempts or 1
        exc_filter = nd.exceptions or ("Exception",)
        n = 0
        self.delivered[nd.name] = dict(kwargs)
        while True:
            k = self.count.get(nd.name, 0)
            self.count[nd.name] = k + 1
            n += 1
            self.invs.append((nd.name, k, dict(kwargs)))
            kind = self.beh.kind(nd, k)
            if kind in (E1, E2):
                matches = ("Exception" in exc_filter) or (KIND_NAMES[kind] in exc_filter)
                if matches and n < attempts:
                    continue
                if nd.use_default:
                    return Val(self._default(nd, kwargs))
                return Fail([(nd.name, kind, k)])
            if kind == BASE_EXC:
                raise RefFatal(nd.name, k)
            if kind == RET_NONE:
                return Val(None)
            if kind == RET_ZERO:
                return Val(0)
            if nd.labels or nd.unknown_label:
                return Val(self.beh.label(nd, k))
            v = node_value(self.spec, nd, self.beh.base(nd), kwargs, self.bad)
            if nd.recurrent and (nd.want_max > 0 or nd.rec_pattern):
                rc = self.rec_count.get(nd.name, 0)
                if self.beh.asks_again(nd, k, rc):
                    self.rec_count[nd.name] = rc + 1
                    data = None if self.beh.rec_data_is_none(nd, rc) else v + self.beh.rec_offset(nd)
                    return RecOut(data, dict(kwargs))
            return Val(v)
