"""Lean CrossHair driver (DESIGN §1.1).

A job is a harness ``fn(sym) -> (label, info)``.  ``sym`` hands out symbolic
values (CrossHair proxies backed by z3 variables) during exploration and plain
Python values during concrete replay, so that one harness serves both.  The
driver explores every feasible path of harness + real engine code with
CrossHair's own search tree (StateSpace / RootNode / bubble_status); a path is
CONFIRMED only if the label it returns is 'ok' (or is tolerated by a known
finding, evaluated symbolically on that path).  The verdict of a job is the
root status of the tree.
"""
from __future__ import annotations

import os
import sys
import time
import traceback
from dataclasses import dataclass, field
from typing import Any, Callable, Dict, List, Optional, Tuple

import crosshair.core_and_libs  # noqa: F401  (loads opcode patches)
import z3
from crosshair.core import ExceptionFilter, Patched, proxy_for_type, realize
from crosshair.statespace import (
    CallAnalysis,
    RootNode,
    StateSpace,
    StateSpaceContext,
    VerificationStatus,
)
from crosshair.tracers import COMPOSITE_TRACER, NoTracing, ResumedTracing, is_tracing
from crosshair.util import (
    CrossHairInternal,
    IgnoreAttempt,
    NotDeterministic,
    UnexploredPath,
)

try:  # ControlFlowException is the common base of IgnoreAttempt/UnexploredPath
    from crosshair.util import ControlFlowException
except ImportError:  # pragma: no cover
    ControlFlowException = (IgnoreAttempt, UnexploredPath)  # type: ignore


# --------------------------------------------------------------------------
# z3 accounting (measured, for evidence)
# --------------------------------------------------------------------------
class Z3Stats:
    queries = 0
    seconds = 0.0
    unknown = 0
    installed = False


def _install_z3_accounting() -> None:
    if Z3Stats.installed:
        return
    orig = z3.Solver.check

    def check(self, *a):  # type: ignore[no-untyped-def]
        t0 = time.perf_counter()
        try:
            r = orig(self, *a)
        finally:
            Z3Stats.queries += 1
            Z3Stats.seconds += time.perf_counter() - t0
        if r == z3.unknown:
            Z3Stats.unknown += 1
        return r

    z3.Solver.check = check  # type: ignore[assignment]
    Z3Stats.installed = True


# --------------------------------------------------------------------------
# control-flow exception guard (DESIGN §1.5 item 4)
# --------------------------------------------------------------------------
class _CFGuard:
    """Remember CrossHair control-flow exceptions raised anywhere on a path.

    An asyncio Task stores *any* BaseException raised by its coroutine, so an
    ``IgnoreAttempt``/``UnexploredPath`` raised inside a task would otherwise be
    kept in the task and show up as a hang or as an odd run error.  Harnesses
    call ``cf_guard.check()`` before computing a verdict.
    """

    def __init__(self) -> None:
        self.pending: Optional[BaseException] = None

    def note(self, exc: BaseException) -> None:
        if self.pending is None:
            self.pending = exc

    def reset(self) -> None:
        self.pending = None

    def check(self) -> None:
        if self.pending is not None:
            exc, self.pending = self.pending, None
            raise exc


cf_guard = _CFGuard()

CF_TYPES: Tuple[type, ...] = (
    (ControlFlowException,) if isinstance(ControlFlowException, type) else tuple(ControlFlowException)
) + (NotDeterministic, CrossHairInternal)


def is_control_flow(exc: BaseException) -> bool:
    return isinstance(exc, CF_TYPES)


# --------------------------------------------------------------------------
# symbolic / concrete value sources
# --------------------------------------------------------------------------
class Sym:
    """Source of the harness's quantified variables."""

    symbolic = True

    def __init__(self, space: StateSpace, fixed: Optional[Dict[str, Any]] = None) -> None:
        self.space = space
        self.vars: Dict[str, Any] = {}
        self.bounds: Dict[str, Tuple[int, int]] = {}
        self.choices: Dict[str, int] = {}
        self.fixed: Dict[str, Any] = dict(fixed or {})

    # -- ints --------------------------------------------------------------
    def int(self, name: str, lo: int, hi: int) -> Any:
        """A symbolic int in [lo, hi] (bounds are solver constraints: no fork)."""
        if name in self.fixed:
            return self.fixed[name]
        if name in self.vars:
            return self.vars[name]
        with NoTracing():
            # constructed directly (proxy_for_type adds a "premature realize" fork once a variable was
            # realized on an earlier path; sound, but it hands out plain ints and doubles paths)
            from crosshair.libimpl.builtinslib import SymbolicBoundedInt

            v = SymbolicBoundedInt(name, int, lo, hi)
        self.vars[name] = v
        self.bounds[name] = (lo, hi)
        return v

    def choice(self, name: str, n: int) -> int:
        """A finite selector 0..n-1, case-split by the solver, returned concrete."""
        if name in self.fixed:
            return int(self.fixed[name])
        if name in self.choices:
            return self.choices[name]
        if n <= 1:
            self.choices[name] = 0
            self.bounds[name] = (0, 0)
            return 0
        v = self.int(name, 0, n - 1)
        res = n - 1
        for i in range(n - 1):
            if v == i:
                res = i
                break
        self.choices[name] = res
        return res

    def bool(self, name: str) -> bool:
        return self.choice(name, 2) == 1

    def str(self, name: str, max_len: int, alphabet: str) -> Any:
        """A symbolic str with len<=max_len over the alphabet (constraints, no forks)."""
        if name in self.vars:
            return self.vars[name]
        with NoTracing():
            from crosshair.libimpl.builtinslib import LazyIntSymbolicStr, SymbolicBoundedIntTuple

            cps = sorted(set(map(ord, alphabet)))
            ranges = []
            for c in cps:
                if ranges and ranges[-1][1] == c - 1:
                    ranges[-1] = (ranges[-1][0], c)
                else:
                    ranges.append((c, c))
            tup = SymbolicBoundedIntTuple(ranges, name)
            self.space.add(tup._len.var <= max_len)
            s = LazyIntSymbolicStr(tup)
        self.vars[name] = s
        self.bounds[name] = (0, max_len)
        return s

    def assume(self, cond: Any) -> None:
        """Restrict the path to assignments satisfying cond (forks if symbolic)."""
        if not cond:
            raise IgnoreAttempt("assumption failed")

    def witness(self) -> Dict[str, Any]:
        out: Dict[str, Any] = {}
        for k, v in self.vars.items():
            out[k] = realize(v)
        for k, v in self.choices.items():
            out[k] = v
        for k, v in self.fixed.items():
            out[k] = v
        return out


class Conc(Sym):
    """Concrete replay: values come from a witness dict (default: lower bound)."""

    symbolic = False

    def __init__(self, witness: Dict[str, Any]) -> None:  # noqa: super not called on purpose
        self.w = dict(witness)
        self.fixed = {}
        self.vars = {}
        self.bounds = {}
        self.choices = {}
        self.used: Dict[str, Any] = {}

    def int(self, name: str, lo: int, hi: int) -> Any:
        v = self.w.get(name, lo)
        self.used[name] = v
        self.bounds[name] = (lo, hi)
        return v

    def choice(self, name: str, n: int) -> int:
        v = int(self.w.get(name, 0))
        if n <= 1:
            v = 0
        self.used[name] = v
        self.bounds[name] = (0, max(n - 1, 0))
        return v

    def str(self, name: str, max_len: int, alphabet: str) -> Any:
        v = self.w.get(name, "")
        self.used[name] = v
        return v

    def assume(self, cond: Any) -> None:
        if not cond:
            raise AssumptionFailed()

    def witness(self) -> Dict[str, Any]:
        return dict(self.used)


class AssumptionFailed(Exception):
    pass


# --------------------------------------------------------------------------
# results
# --------------------------------------------------------------------------
@dataclass
class PathRecord:
    label: str
    witness: Dict[str, Any]
    info: Dict[str, Any]
    known: Optional[str] = None  # id of the known finding that tolerates the label


@dataclass
class JobResult:
    name: str
    status: str = "inconclusive"  # confirmed | refuted | inconclusive | harness_error
    reason: str = ""
    exhausted: bool = False
    paths_confirmed: int = 0
    paths_known: int = 0
    paths_ignored: int = 0
    paths_unknown: int = 0
    iterations: int = 0
    z3_queries: int = 0
    z3_seconds: float = 0.0
    z3_unknown: int = 0
    cpu_s: float = 0.0
    wall_s: float = 0.0
    crosschecked: int = 0
    goals_hit: Dict[str, int] = field(default_factory=dict)
    counterexample: Optional[PathRecord] = None
    samples: List[Dict[str, Any]] = field(default_factory=list)
    known_hits: Dict[str, int] = field(default_factory=dict)
    bounds: Dict[str, Any] = field(default_factory=dict)
    error: str = ""
    labels: Dict[str, int] = field(default_factory=dict)


Harness = Callable[[Sym], Tuple[str, Dict[str, Any]]]
KnownMatcher = Callable[[str, Sym, Dict[str, Any]], Optional[str]]


def _reset_marks() -> None:
    """Per-harness-invocation reset of marks the generated node bodies leave on node instances."""
    try:
        from . import spec as _spec

        _spec.reset_instance_marks()
    except Exception:  # noqa: BLE001
        pass


def explore(
    name: str,
    fn: Harness,
    *,
    budget_s: float = 120.0,
    per_path_timeout: float = 40.0,
    max_iterations: int = 10 ** 9,
    known: Optional[KnownMatcher] = None,
    crosscheck: bool = True,
    seed: int = 0,
    n_samples: int = 3,
    stop_on_refute: bool = True,
    fixed: Optional[Dict[str, Any]] = None,
    on_refute: Optional[Callable[[PathRecord], None]] = None,
) -> JobResult:
    """Explore all paths of ``fn``; see module docstring."""
    _install_z3_accounting()
    import random

    res = JobResult(name=name)
    q0, s0, u0 = Z3Stats.queries, Z3Stats.seconds, Z3Stats.unknown
    t_wall0 = time.perf_counter()
    t_cpu0 = time.process_time()
    root = RootNode()
    # CrossHair's path oracle draws from its own RNG seeded per-iteration; seeding
    # python's global RNG makes tie-breaking reproducible for a given VERIF_SEED.
    random.seed(seed)
    exhausted = False
    refuted = False
    for itr in range(1, max_iterations + 1):
        now = time.process_time()
        if now - t_cpu0 > budget_s:
            res.reason = "budget"
            break
        res.iterations = itr
        space = StateSpace(
            execution_deadline=now + per_path_timeout,
            model_check_timeout=per_path_timeout / 2,
            search_root=root,
        )
        status: Optional[VerificationStatus]
        rec: Optional[PathRecord] = None
        cf_guard.reset()
        with Patched(), COMPOSITE_TRACER, NoTracing(), StateSpaceContext(space):
            sym = Sym(space, fixed)
            try:
                label = None
                info: Dict[str, Any] = {}
                with ExceptionFilter() as efilter, ResumedTracing():
                    _reset_marks()
                    label, info = fn(sym)
                    cf_guard.check()
                    # a harness may report several violated clauses: the path is tolerated only if EVERY one of
                    # them is a known finding (evaluated symbolically); the first that is not is the verdict
                    labels = [l for l in (label if isinstance(label, (list, tuple)) else [label]) if l != "ok"]
                    kf = None
                    label = "ok"
                    for lab in labels:
                        k1 = known(lab, sym, info) if known is not None else None
                        if k1 is None:
                            label, kf = lab, None
                            break
                        if kf is None:
                            label, kf = lab, k1
                    info = dict(info, all_labels=list(labels))
                if efilter.user_exc:
                    exc = efilter.user_exc[0]
                    if isinstance(exc, NotDeterministic):
                        raise NotDeterministic
                    res.status = "harness_error"
                    res.error = "harness raised: %r\n%s" % (exc, "".join(traceback.format_list(efilter.user_exc[1])) if efilter.user_exc[1] else "")
                    break
                if efilter.ignore:
                    status = None
                    res.paths_ignored += 1
                else:
                    with ResumedTracing():
                        space.detach_path()
                        wit = sym.witness()
                        info = _realize_tree(info)
                        label = realize(label)
                    rec = PathRecord(label=label, witness=wit, info=info, known=kf)
                    res.bounds.update(sym.bounds)
                    if label == "ok" or kf is not None:
                        status = VerificationStatus.CONFIRMED
                    else:
                        status = VerificationStatus.REFUTED
            except IgnoreAttempt:
                status = None
                res.paths_ignored += 1
            except UnexploredPath:
                status = VerificationStatus.UNKNOWN
                res.paths_unknown += 1
            except NotDeterministic:
                res.status = "harness_error"
                res.error = "NotDeterministic: harness or engine behaved differently on a repeated path prefix"
                break
            _analysis, exhausted = space.bubble_status(CallAnalysis(status))
        if rec is not None:
            res.labels[rec.label] = res.labels.get(rec.label, 0) + 1
            # concrete cross-check of the witness (guard rail 2)
            if crosscheck:
                try:
                    _reset_marks()
                    c_label, c_info = fn(Conc(rec.witness))
                    c_all = [l for l in (c_label if isinstance(c_label, (list, tuple)) else [c_label]) if l != "ok"]
                    c_label = rec.label if (rec.label in c_all or (rec.label == "ok" and not c_all)) else (c_all[0] if c_all else "ok")
                    if sorted(c_all) != sorted(rec.info.get("all_labels", [])):
                        c_label = "<labels differ: %r>" % (c_all,)
                except AssumptionFailed:
                    c_label, c_info = "<assumption failed>", {}
                except BaseException as e:  # noqa: BLE001
                    c_label, c_info = "<raised %r>" % (e,), {}
                res.crosschecked += 1
                c_info = _realize_tree(c_info) if isinstance(c_info, dict) else {}
                if c_label != rec.label or c_info.get("digest") != rec.info.get("digest"):
                    res.status = "harness_error"
                    res.error = (
                        "symbolic/concrete cross-check disagreement: symbolic label=%r digest=%r, "
                        "concrete label=%r digest=%r, witness=%r"
                        % (rec.label, rec.info.get("digest"), c_label, c_info.get("digest"), rec.witness)
                    )
                    res.counterexample = rec
                    break
            if status == VerificationStatus.REFUTED:
                if res.counterexample is None:
                    res.counterexample = rec
                refuted = True
                if on_refute is not None:
                    on_refute(rec)
                if stop_on_refute:
                    break
            else:
                if rec.known is not None:
                    res.paths_known += 1
                    res.known_hits[rec.known] = res.known_hits.get(rec.known, 0) + 1
                else:
                    res.paths_confirmed += 1
                for g in rec.info.get("goals", ()):
                    res.goals_hit[g] = res.goals_hit.get(g, 0) + 1
                if len(res.samples) < n_samples:
                    res.samples.append({"witness": rec.witness, "label": rec.label,
                                        "summary": rec.info.get("summary")})
        if exhausted:
            break
    res.exhausted = bool(exhausted)
    res.z3_queries = Z3Stats.queries - q0
    res.z3_seconds = round(Z3Stats.seconds - s0, 3)
    res.z3_unknown = Z3Stats.unknown - u0
    res.cpu_s = round(time.process_time() - t_cpu0, 3)
    res.wall_s = round(time.perf_counter() - t_wall0, 3)
    if res.status == "harness_error":
        return res
    if refuted:
        res.status = "refuted"
    elif exhausted and res.paths_unknown == 0:
        res.status = "confirmed"
    else:
        res.status = "inconclusive"
        if not res.reason:
            res.reason = "unknown_paths" if res.paths_unknown else "not_exhausted"
    return res


def _realize_tree(x: Any) -> Any:
    if isinstance(x, dict):
        return {realize(k): _realize_tree(v) for k, v in x.items()}
    if isinstance(x, (list, tuple)):
        return [_realize_tree(v) for v in x]
    if isinstance(x, (set, frozenset)):
        return sorted(_realize_tree(v) for v in x)
    try:
        return realize(x)
    except Exception:  # noqa: BLE001
        return repr(x)
