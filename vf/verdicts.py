"""Property verdicts over (engine observation, reference result).

Every function returns None when its clause holds on this path, else a short
violation label.  Comparisons of values are made on the symbolic terms, so a
label is returned on a path iff some assignment of the symbolic inputs on that
path makes the engine differ from the reference (the solver decides)."""
from __future__ import annotations

import asyncio
from typing import Any, Dict, List, Optional, Set, Tuple

from .harness import Obs
from .refsem import Fail, RefResult, Val
from .spec import (BASE_EXC, E1, E2, CollabError, In, NodeBaseExc, NodeErr1, NodeErr2, OneOf, Rec, Spec, Sw,
                   StoreAlreadyExists)


def same(a: Any, b: Any) -> bool:
    if a is None or b is None:
        return a is None and b is None
    if isinstance(a, str) or isinstance(b, str):
        return isinstance(a, str) and isinstance(b, str) and a == b
    if isinstance(a, bool) or isinstance(b, bool) or not isinstance(a, int) or not isinstance(b, int):
        return False
    return bool(a == b)


def blocking(obs: Obs) -> Optional[str]:
    if obs.rc.blocking:
        return "engine_blocks_event_loop:%s" % obs.rc.blocking[0]
    return None


def hang(obs: Obs) -> Optional[str]:
    if obs.kind == "deadlock":
        return "deadlock"
    if obs.kind == "livelock":
        return "livelock"
    return None


def is_fatal(ref: RefResult) -> bool:
    return isinstance(ref.outcome, tuple) and ref.outcome[0] == "fatal"


# --------------------------------------------------------------------------- C01
def cause_ok(err: BaseException, causes: List[Tuple[Any, ...]]) -> bool:
    from ml_pipeline_engine.dag.errors import OneOfDoesNotHaveResultError, RecurrentSubgraphDoesNotHaveResultError

    if isinstance(err, (NodeErr1, NodeErr2)) and len(err.args) == 2:
        kind = E1 if isinstance(err, NodeErr1) else E2
        return (err.args[0], kind, err.args[1]) in causes
    if isinstance(err, OneOfDoesNotHaveResultError):
        return any(len(c) >= 2 and c[1] == "oneof" for c in causes)
    if isinstance(err, RecurrentSubgraphDoesNotHaveResultError):
        return any(len(c) >= 2 and c[1] == "rec" for c in causes)
    if any(len(c) >= 2 and c[1] == "nolabel" for c in causes):
        # the statements only ask for "an error" when a label matches no case
        return isinstance(err, Exception) and not isinstance(err, (CollabError,))
    return False


def outcome(obs: Obs, ref: RefResult) -> Optional[str]:
    """Engine outcome == reference outcome (value, or fact and cause of failure)."""
    if hang(obs):
        return None
    out = ref.outcome
    if is_fatal(ref):
        if obs.kind == "raised" and isinstance(obs.exc, NodeBaseExc):
            return None
        return "fatal_not_propagated:%s" % obs.kind
    if obs.kind != "done":
        return "raised:%s" % type(obs.exc).__name__
    if isinstance(out, Val):
        if obs.error is not None:
            return "unexpected_error:%s" % type(obs.error).__name__
        if not same(obs.value, out.v):
            return "wrong_value"
        return None
    if obs.error is None:
        return "missing_error"
    if not cause_ok(obs.error, out.causes):
        return "wrong_cause:%s" % type(obs.error).__name__
    return None


# --------------------------------------------------------------------------- C03
def args(obs: Obs, ref: RefResult, nodes: Optional[Set[str]] = None) -> Optional[str]:
    """Every body invocation got exactly the declared kwargs with the reference values."""
    rc = obs.rc
    spec = rc.spec
    if rc.reused:
        return "node_instance_reused:%s" % rc.reused[0]
    if rc.bad:
        where, tname = rc.bad[0]
        return "bad_arg_type:%s.%s:%s" % (where[0], where[1], tname)
    per = ref.per_node()
    for inv in rc.invs:
        if nodes is not None and inv.node not in nodes:
            continue
        exp = None
        for k, kw in per.get(inv.node, ()):
            if k == inv.k:
                exp = kw
                break
        if exp is None:
            continue  # an execution the reference does not have: C04/C09/C10 judge it
        got = inv.kwargs
        gk, ek = sorted(got.keys()), sorted(exp.keys())
        if gk != ek:
            missing = [x for x in ek if x not in gk]
            extra = [x for x in gk if x not in ek]
            return "kwarg_names:%s:missing=%s:extra=%s" % (inv.node, ",".join(missing), ",".join(extra))
        for key in ek:
            if not same(got[key], exp[key]):
                return "arg:%s.%s" % (inv.node, key)
    # the body started after its (plain) inputs' producing invocation ended
    ends: Dict[str, List[int]] = {}
    for seq, kind, node, payload in rc.log:
        if kind == "end" and payload[0] != "exc":
            ends.setdefault(node, []).append(seq)
    for inv in rc.invs:
        nd = spec.by_name[inv.node]
        for pname, m in nd.params:
            src = m.node if isinstance(m, In) else (m.dest if isinstance(m, Rec) else None)
            if src is None:
                continue
            if not any(s < inv.seq for s in ends.get(src, ())):
                if not spec.by_name[src].use_default:
                    return "started_before_input:%s<-%s" % (inv.node, src)
    return None


def input_untouched(obs: Obs) -> Optional[str]:
    b, a = obs.input_kwargs_before, obs.input_kwargs_after
    if sorted(b.keys()) != sorted(a.keys()):
        return "input_kwargs_mutated:" + ",".join(sorted(set(a.keys()) ^ set(b.keys())))
    return None


# --------------------------------------------------------------------------- C04
def once(obs: Obs, ref: RefResult) -> Optional[str]:
    """Per node: engine invocation count <= reference count (== on success); nothing un-demanded ran."""
    rc = obs.rc
    counts: Dict[str, int] = {}
    for inv in rc.invs:
        counts[inv.node] = counts.get(inv.node, 0) + 1
    rcounts: Dict[str, int] = {}
    for n, k, kw in ref.invs:
        rcounts[n] = rcounts.get(n, 0) + 1
    for n, c in counts.items():
        if n not in rcounts:
            return "executed_undemanded:%s" % n
        if c > rcounts[n]:
            return "executed_more:%s:%d>%d" % (n, c, rcounts[n])
    if obs.kind == "done" and obs.error is None and isinstance(ref.outcome, Val):
        for n, c in rcounts.items():
            if counts.get(n, 0) != c:
                return "executed_less:%s:%d<%d" % (n, counts.get(n, 0), c)
    # submissions == bodies for finished runs is not required (a cancelled executor item may still run)
    return None


# --------------------------------------------------------------------------- C05
def faithful(obs: Obs, ref: RefResult) -> Optional[str]:
    from ml_pipeline_engine.dag.errors import OneOfDoesNotHaveResultError, RecurrentSubgraphDoesNotHaveResultError

    if hang(obs):
        return None
    if obs.kind == "raised":
        if isinstance(obs.exc, NodeBaseExc) and is_fatal(ref):
            return None
        return "escaped:%s" % type(obs.exc).__name__
    if obs.kind != "done":
        return "escaped:%s" % obs.kind
    err = obs.error
    out = ref.outcome
    if is_fatal(ref):
        return "fatal_swallowed"
    if isinstance(out, Val):
        if err is not None:
            return "error_on_computable_run:%s" % type(err).__name__
        return None
    if err is None:
        return "value_returned_though_required_node_failed"
    if obs.value is not None:
        return "value_with_error"
    if isinstance(err, (OneOfDoesNotHaveResultError, RecurrentSubgraphDoesNotHaveResultError)):
        if cause_ok(err, out.causes):
            return None
        return "engine_error_without_exhaustion:%s" % type(err).__name__
    if any(err is e for e in obs.rc.raised):
        if cause_ok(err, out.causes):
            return None
        return "error_from_non_required_node:%s" % (err.args[0] if err.args else "?")
    if any(len(c) >= 2 and c[1] == "nolabel" for c in out.causes):
        if isinstance(err, (KeyError, LookupError, asyncio.CancelledError)):
            return "internal_artefact_as_outcome:%s" % type(err).__name__
        return None
    return "internal_artefact_as_outcome:%s" % type(err).__name__


# --------------------------------------------------------------------------- C10 helpers
def oneof_order(obs: Obs, ref: RefResult) -> Optional[str]:
    """Candidate i+1 is started only after candidate i's sub-pipeline recorded a failure."""
    rc = obs.rc
    spec = rc.spec
    first_start: Dict[str, int] = {}
    exc_ends: Dict[str, List[int]] = {}
    for seq, kind, node, payload in rc.log:
        if kind == "start" and node not in first_start:
            first_start[node] = seq
        if kind == "end" and payload[0] == "exc":
            exc_ends.setdefault(node, []).append(seq)
    for nd in spec.nodes:
        for pname, m in nd.params:
            if not isinstance(m, OneOf):
                continue
            for i in range(len(m.nodes) - 1):
                ci, cj = m.nodes[i], m.nodes[i + 1]
                if cj not in first_start:
                    continue
                # candidate j ran: candidate i's sub-pipeline must have failed before
                sub = spec.ancestors(ci) | {ci}
                fails = [s for n in sub for s in exc_ends.get(n, ())]
                # private nodes of cj only (shared ancestors may legitimately start earlier)
                if not fails or min(fails) > first_start[cj]:
                    if ci in spec.ancestors(cj) or cj in spec.ancestors(ci):
                        continue
                    if not fails:
                        fin = ref.final.get(ci)
                        causes = getattr(fin, "causes", None) or []
                        if causes and all(len(c) >= 2 and c[1] in ("nolabel", "oneof", "rec") for c in causes):
                            continue  # the candidate failed without any node body raising (e.g. a label without a case)
                    return "candidate_started_early:%s" % cj
    return None


# --------------------------------------------------------------------------- C14
def events(obs: Obs, ref: RefResult) -> Optional[str]:
    rc = obs.rc
    spec = rc.spec
    evs = rc.events
    if hang(obs):
        # safety clauses on the prefix
        names = [e[1] for e in evs]
        if names and names[0] != "on_pipeline_start":
            return "first_event:%s" % names[0]
        if names.count("on_pipeline_start") > 1:
            return "pipeline_start_twice"
        return None
    names = [e[1] for e in evs]
    if not names or names[0] != "on_pipeline_start":
        return "first_event:%s" % (names[0] if names else "none")
    if names.count("on_pipeline_start") != 1:
        return "pipeline_start_count:%d" % names.count("on_pipeline_start")
    if obs.kind == "done":
        if names.count("on_pipeline_complete") != 1:
            return "pipeline_complete_count:%d" % names.count("on_pipeline_complete")
        if names[-1] != "on_pipeline_complete":
            return "last_event:%s" % names[-1]
        if evs[-1][2].get("result") is not obs.result:
            return "pipeline_complete_other_result"
        # nothing at all after the final event
        if rc.log and rc.log[-1][0] != evs[-1][0]:
            last = rc.log[-1]
            return "activity_after_pipeline_complete:%s:%s" % (last[1], last[2])
    # per node: start then one complete per attempt
    per: Dict[str, List[Tuple[int, str, Any]]] = {}
    for seq, name, kw, _ctx in evs:
        if name in ("on_node_start", "on_node_complete"):
            per.setdefault(kw["node_id"], []).append((seq, name, kw.get("error")))
    bodies: Dict[str, List[Tuple[int, str, Any]]] = {}
    for seq, kind, node, payload in rc.log:
        if kind in ("body", "end", "default"):
            bodies.setdefault(node, []).append((seq, kind, payload))
    for node_id, lst in per.items():
        name = spec.name_of(node_id)
        if name is None or name not in spec.by_name:
            return "event_for_unknown_node:%s" % node_id
        # expected grammar: (start (complete)+ )*   where each execution = start, then one complete per attempt
        state = "idle"
        for seq, ev, err in lst:
            if ev == "on_node_start":
                if state == "open":
                    return "node_start_twice:%s" % name
                state = "open"
                attempts_seen = 0
            else:
                if state == "idle":
                    return "complete_without_start:%s" % name
                state = "completed"
        # pair completes with body attempts: k-th complete reports the k-th attempt's outcome
        completes = [(seq, err) for seq, ev, err in lst if ev == "on_node_complete"]
        ends = [(seq, payload) for seq, kind, payload in bodies.get(name, ()) if kind == "end"]
        defaults = [seq for seq, kind, payload in bodies.get(name, ()) if kind == "default"]
        finished = obs.kind == "done" and obs.error is None
        if finished and len(completes) != len(ends) + _forced_defaults(name, rc):
            return "complete_count:%s:%d!=%d" % (name, len(completes), len(ends) + _forced_defaults(name, rc))
        for (cseq, err), (eseq, payload) in zip(completes, ends):
            if cseq < eseq:
                return "complete_before_body_end:%s" % name
        # last complete: error None iff node produced a value (possibly default)
        if completes and ends and len(completes) == len(ends):
            last_err = completes[-1][1]
            last_end = ends[-1][1]
            produced = last_end[0] != "exc" or any(d > ends[-1][0] for d in defaults)
            if produced and last_err is not None:
                return "last_complete_reports_error_but_value_produced:%s" % name
            if not produced and last_err is None:
                return "last_complete_reports_success_but_node_failed:%s" % name
            if not produced and last_err is not None:
                inv_k = last_end[1]
                raised = [e for e in rc.raised if e.args and e.args[0] == name and e.args[1] == inv_k]
                if raised and last_err is not raised[0]:
                    return "complete_reports_other_exception:%s" % name
    # every executed body belongs to an opened node execution
    for inv in rc.invs:
        nid = spec.node_id(inv.node)
        starts = [seq for seq, ev, err in per.get(nid, ()) if ev == "on_node_start"]
        if not starts or min(starts) > inv.seq:
            return "body_without_node_start:%s" % inv.node
    # a node's value is not delivered to a consumer before its successful on_node_complete
    ok_complete: Dict[str, List[int]] = {}
    for node_id, lst in per.items():
        nm = spec.name_of(node_id)
        for seq, ev, err in lst:
            if ev == "on_node_complete" and err is None:
                ok_complete.setdefault(nm, []).append(seq)
    for inv in rc.invs:
        nd = spec.by_name[inv.node]
        for pname, m in nd.params:
            src = m.node if isinstance(m, In) else (m.dest if isinstance(m, Rec) else None)
            if src is None:
                continue
            if not any(s < inv.seq for s in ok_complete.get(src, ())):
                return "consumer_before_producer_complete:%s<-%s" % (inv.node, src)
    return None


def _forced_defaults(name: str, rc: Any) -> int:
    """Executions that consist of get_default only (recurrent exhaustion) have no body end record."""
    n_def = sum(1 for s, kind, node, p in rc.log if kind == "default" and node == name)
    # defaults that directly follow a failing body end belong to that attempt
    lst = [(s, kind, p) for s, kind, node, p in rc.log if node == name and kind in ("end", "default")]
    forced = 0
    prev = None
    for s, kind, p in lst:
        if kind == "default" and not (prev is not None and prev[1] == "end" and prev[2][0] == "exc"):
            forced += 1
        prev = (s, kind, p)
    return forced


# --------------------------------------------------------------------------- C19
def saves(obs: Obs, ref: RefResult) -> Optional[str]:
    from ml_pipeline_engine.types import Recurrent

    rc = obs.rc
    spec = rc.spec
    for seq, node_id, data in rc.saves:
        if isinstance(data, Recurrent):
            return "saved_recurrent_marker:%s" % node_id
        if isinstance(data, BaseException):
            return "saved_failure:%s" % node_id
    if hang(obs) or obs.kind != "done":
        return None
    if isinstance(ref.outcome, Val):
        if obs.error is not None:
            if isinstance(obs.error, StoreAlreadyExists):
                return "write_once_store_failed_correct_pipeline:%s" % obs.error.args[0]
            return None
        per: Dict[str, List[Any]] = {}
        for seq, node_id, data in rc.saves:
            per.setdefault(node_id, []).append(data)
        executed = sorted({inv.node for inv in rc.invs})
        for name in executed:
            nid = spec.node_id(name)
            lst = per.get(nid, [])
            fin = ref.final.get(name)
            if not isinstance(fin, Val):
                # executed but without a final value (a contained failure of a losing one-of candidate):
                # there is nothing to save, and nothing may be saved
                if lst:
                    return "saved_without_final_value:%s" % name
                continue
            if len(lst) == 0:
                return "not_saved:%s" % name
            if len(lst) > 1:
                return "saved_twice:%s" % name
            if not same(lst[0], fin.v):
                return "saved_value_differs:%s" % name
        for nid in per:
            nm = spec.name_of(nid)
            if nm is None or nm not in spec.by_name:
                # synthetic nodes (one-of heads) are not "nodes it executed"
                continue
    return None
