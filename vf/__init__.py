"""Solver-based checking machinery for ml-pipeline-engine (see /verif/DESIGN.md)."""
