"""Engine harness E (DESIGN §2): spec -> real classes -> real build_dag -> real
PipelineChart.run on the virtual loop; returns the observation the property
verdicts are computed from."""
from __future__ import annotations

import asyncio
import contextlib
import logging
import warnings
from dataclasses import dataclass, field
from typing import Any, Dict, List, Optional, Tuple

from crosshair.tracers import NoTracing, is_tracing

from . import nxproxy
from .driver import cf_guard, is_control_flow
from .spec import CUR, Behaviour, RunCtx, Spec, build_classes, make_event_manager, make_store
from .vloop import HOLD, Deadlock, Livelock, VLoop

logging.disable(logging.CRITICAL)
warnings.simplefilter("ignore")


def untraced() -> Any:
    return NoTracing() if is_tracing() else contextlib.nullcontext()


class OrdSet:
    """Insertion-ordered stand-in for the manager's ``set`` of tasks; iteration order is
    insertion or reverse (the engine's own order is ``id()``-dependent)."""

    def __init__(self, rev: bool = False) -> None:
        self._l: List[Any] = []
        self._rev = rev

    def add(self, x: Any) -> None:
        for y in self._l:
            if y is x:
                return
        self._l.append(x)

    def discard(self, x: Any) -> None:
        self._l = [y for y in self._l if y is not x]

    def __iter__(self) -> Any:
        return iter(list(reversed(self._l)) if self._rev else list(self._l))

    def __len__(self) -> int:
        return len(self._l)

    def __contains__(self, x: Any) -> bool:
        return any(y is x for y in self._l)


class DummyPool:
    """Registered in the pool registries; never used (VLoop.run_in_executor is the stub)."""

    def __init__(self, shut: bool = False) -> None:
        self._shutdown = shut
        self._shutdown_thread = shut

    def shutdown(self, *a: Any, **k: Any) -> None:
        pass


class DummyManager:
    def shutdown(self, *a: Any, **k: Any) -> None:
        pass


def set_pools(thread: str = "ok", process: str = "ok") -> None:
    """Registry state: 'ok' | 'none' | 'shut'."""
    from ml_pipeline_engine.parallelism import process_pool_registry, threads_pool_registry

    def mk(state: str) -> Any:
        if state == "none":
            return None
        return DummyPool(shut=(state == "shut"))

    threads_pool_registry._pool_executor = mk(thread)
    process_pool_registry._pool_executor = mk(process)
    process_pool_registry._process_manager = DummyManager()


_CLASS_CACHE: Dict[int, Tuple[Spec, Dict[str, type]]] = {}


def classes_for(spec: Spec) -> Dict[str, type]:
    key = id(spec)
    hit = _CLASS_CACHE.get(key)
    if hit is None or hit[0] is not spec:
        with untraced():
            hit = (spec, build_classes(spec))
        _CLASS_CACHE[key] = hit
    return hit[1]


@dataclass
class Cfg:
    events: bool = False
    store: bool = False
    write_once: bool = False
    rev_taskset: bool = False
    tick: int = 0
    max_iterations: int = 3000
    drain: bool = False
    cancel_at: Any = None  # loop iteration index at which the caller cancels the run (None: never)
    ev_fail_at: Any = -1
    save_fail_at: Any = -1
    collab_dur: Any = 0  # event callbacks
    save_dur: Any = None  # artifact saves (None: same as collab_dur)
    ev_durs: Optional[Dict[str, Any]] = None  # per event name
    hold: Optional[set] = None
    pipeline_id: str = "pid"


@dataclass
class Obs:
    kind: str  # done | raised | deadlock | livelock | cancelled
    result: Any
    exc: Optional[BaseException]
    rc: RunCtx
    iterations: int
    pending_tasks: List[str] = field(default_factory=list)
    drain: str = ""
    loop_errors: int = 0
    input_kwargs_after: Optional[Dict[str, Any]] = None
    input_kwargs_before: Optional[Dict[str, Any]] = None
    dag: Any = None
    chart: Any = None
    n_tasks: int = 0
    waiters: Any = None
    cancel_delivered: Any = None

    @property
    def value(self) -> Any:
        return self.result.value if self.result is not None else None

    @property
    def error(self) -> Any:
        if self.result is not None:
            return self.result.error
        return None

    def digest(self) -> Any:
        rc = self.rc
        def plain(v: Any) -> Any:
            # symbolic / concrete ints, strings and None as they are; anything else (a coroutine object, an exception
            # or Recurrent marker returned as the value) by type name: reprs with addresses differ between runs
            if v is None or isinstance(v, (int, str)):
                return v
            return "<%s>" % type(v).__name__

        return [
            self.kind,
            None if self.result is None else plain(self.result.value),
            None if self.result is None or self.result.error is None else type(self.result.error).__name__,
            None if self.exc is None else type(self.exc).__name__,
            [(i.node, i.k) for i in rc.invs],
            len(rc.log),
            self.pending_tasks,
        ]


def build_chart(spec: Spec, cfg: Cfg, dag: Any = None) -> Any:
    """Real build_dag + PipelineChart (tracing suspended; all inputs concrete)."""
    from ml_pipeline_engine.chart import PipelineChart
    from ml_pipeline_engine.dag.manager import DAGRunConcurrentManager
    from ml_pipeline_engine.dag_builders.annotation.builder import build_dag

    classes = classes_for(spec)
    with untraced():
        nxproxy.install()
        if dag is None:
            dag = build_dag(input_node=classes[spec.input], output_node=classes[spec.output])
            nxproxy.wrap_dag_graph(dag.graph)
        rev = cfg.rev_taskset

        import dataclasses

        # the ordered stand-in replaces the registry only where the code's own registry is a plain ``set``; any other
        # container the tree declares (a WeakSet, a list, ...) is part of the behaviour under test and is left alone --
        # tasks hash by creation number on the virtual loop, so that is deterministic as well
        has_task_set = any(f.name == "_coro_tasks" and f.default_factory is set
                           for f in dataclasses.fields(DAGRunConcurrentManager))

        def manager_factory(dag: Any, ctx: Any) -> Any:
            if has_task_set:
                return DAGRunConcurrentManager(dag=dag, ctx=ctx, _coro_tasks=OrdSet(rev))
            # the task registry was renamed/restructured: run with the engine's own (id()-ordered) registry rather
            # than report a harness artefact as a verdict; the two-orders assumption is then not exercised
            return DAGRunConcurrentManager(dag=dag, ctx=ctx)

        dag.run_manager = manager_factory
        chart = PipelineChart(
            "m", dag,
            artifact_store=make_store() if cfg.store else None,
            event_managers=[make_event_manager()] if cfg.events else [],
        )
    return chart


def new_loop(cfg: Cfg) -> VLoop:
    loop = VLoop(max_iterations=cfg.max_iterations, tick=cfg.tick)

    def duration_of() -> Any:
        task = asyncio.current_task(loop)
        rc: RunCtx = CUR.get()
        name = rc.spec.name_of(task.get_name()) if task is not None else None
        if name is None or name not in rc.spec.by_name:
            return 0
        k = rc.start(name)
        if rc.hold is not None and name in rc.hold:
            return HOLD
        return rc.beh.dur(rc.spec.by_name[name], k)

    loop.duration_of = duration_of
    return loop


def make_rc(spec: Spec, beh: Behaviour, cfg: Cfg, loop: VLoop) -> RunCtx:
    rc = RunCtx(spec, beh, loop)
    rc.ev_fail_at = cfg.ev_fail_at
    rc.save_fail_at = cfg.save_fail_at
    rc.collab_dur = cfg.collab_dur
    rc.save_dur = cfg.collab_dur if cfg.save_dur is None else cfg.save_dur
    rc.ev_durs = dict(cfg.ev_durs or {})
    rc.store_write_once = cfg.write_once
    rc.hold = cfg.hold
    return rc


def run_engine(spec: Spec, beh: Behaviour, cfg: Optional[Cfg] = None, chart: Any = None,
               input_kwargs: Optional[Dict[str, Any]] = None) -> Obs:
    cfg = cfg or Cfg()
    if chart is None:
        chart = build_chart(spec, cfg)
    loop = new_loop(cfg)
    rc = make_rc(spec, beh, cfg, loop)
    inp = beh.inputs() if input_kwargs is None else input_kwargs
    before = dict(inp)

    async def main() -> Any:
        CUR.set(rc)
        try:
            return await chart.run(pipeline_id=cfg.pipeline_id, input_kwargs=inp)
        finally:
            rc.closed = True

    exc: Optional[BaseException] = None
    result = None
    cancel_state: Dict[str, Any] = {"task": None, "cancelled_at": None}
    import time as _time

    real_sleep = _time.sleep

    def _blocking_sleep(secs: Any = 0) -> None:
        # generated node bodies never call time.sleep: a call reaching this stub comes from engine code and would
        # block the event loop (every other in-flight node) for `secs` seconds
        rc.blocking.append("time.sleep")

    _time.sleep = _blocking_sleep
    try:
        if cfg.cancel_at is None:
            kind, payload = loop.run_to_verdict(main())
        else:
            kind, payload = _run_with_cancel(loop, main, cfg.cancel_at, cancel_state)
    finally:
        _time.sleep = real_sleep
    if kind == "done":
        result = payload
    elif kind in ("raised", "cancelled"):
        exc = payload
    rc.closed = True
    waiters = None
    if kind == "deadlock":
        waiters = _waiters(loop)
    drain = ""
    if cfg.drain and kind not in ("deadlock", "livelock"):
        drain = loop.drain()
    pending = sorted(_tname(t) for t in loop.tasks if not t.done())
    # control-flow exceptions stored in tasks must not be mistaken for engine behaviour
    for t in loop.tasks:
        if t.done() and not t.cancelled():
            e = t.exception()
            if e is not None and is_control_flow(e):
                cf_guard.note(e)
    n_tasks = loop.n_created
    n_err = len(loop.errors)
    its = loop.iterations
    rc.frozen = True
    loop.shutdown()
    cf_guard.check()
    return Obs(kind=kind, result=result, exc=exc, rc=rc, iterations=its, pending_tasks=pending,
               drain=drain, loop_errors=n_err, input_kwargs_after=inp, input_kwargs_before=before,
               dag=chart.entrypoint, chart=chart, n_tasks=n_tasks, waiters=waiters,
               cancel_delivered=cancel_state["cancelled_at"])


def _run_with_cancel(loop: VLoop, main: Any, cancel_at: Any, state: Dict[str, Any]) -> Tuple[str, Any]:
    """Start the run as a task; cancel it when the loop iteration counter reaches cancel_at."""

    def on_iteration(lp: VLoop) -> None:
        t = state["task"]
        if t is not None and state["cancelled_at"] is None and not t.done() and lp.iterations == cancel_at:
            state["cancelled_at"] = lp.iterations
            t.cancel()

    async def outer() -> Any:
        t = asyncio.ensure_future(main())
        state["task"] = t
        loop.on_iteration = on_iteration
        try:
            return ("done", await _wait(t))
        finally:
            loop.on_iteration = None

    async def _wait(t: asyncio.Future) -> Any:
        # wait without being the one who propagates a cancel into t
        while not t.done():
            fut = loop.create_future()
            t.add_done_callback(lambda _t, f=fut: (not f.done()) and f.set_result(None))
            await fut
        return t

    kind, payload = loop.run_to_verdict(outer())
    if kind != "done":
        return kind, payload
    t = payload[1]
    if t.cancelled():
        return "cancelled", asyncio.CancelledError()
    e = t.exception()
    if e is not None:
        if is_control_flow(e):
            raise e
        return "raised", e
    return "done", t.result()


def _tname(t: Any) -> str:
    n = t.get_name()
    return "<caller>" if n.startswith("Task-") else n


def _waiters(loop: VLoop) -> Any:
    out = []
    for t in loop.tasks:
        if not t.done():
            out.append(_tname(t))
    return sorted(out)


# ------------------------------------------------------------------ overlapping runs (C08)
def run_overlapping(spec: Spec, behs: List[Behaviour], cfg: Cfg, charts: List[Any],
                    cancel_first_at: Any = None, start_delays: Optional[List[Any]] = None) -> List[Obs]:
    """Several chart.run coroutines on one virtual loop (one chart or charts sharing node classes)."""
    loop = new_loop(cfg)
    rcs = [make_rc(spec, b, cfg, loop) for b in behs]
    inps = [b.inputs() for b in behs]
    befores = [dict(i) for i in inps]
    tasks: List[Any] = []
    state: Dict[str, Any] = {"cancelled_at": None}

    def mk(i: int) -> Any:
        async def one() -> Any:
            CUR.set(rcs[i])
            if start_delays is not None:
                # a staggered start: the run begins while the others are wherever their durations have taken them
                await asyncio.sleep(start_delays[i])
            try:
                return await charts[i].run(pipeline_id="pid%d" % i, input_kwargs=inps[i])
            finally:
                rcs[i].closed = True

        return one

    def on_iteration(lp: VLoop) -> None:
        if tasks and state["cancelled_at"] is None and not tasks[0].done() and lp.iterations == cancel_first_at:
            state["cancelled_at"] = lp.iterations
            tasks[0].cancel()

    async def main() -> Any:
        for i in range(len(behs)):
            tasks.append(asyncio.ensure_future(mk(i)()))
        if cancel_first_at is not None:
            loop.on_iteration = on_iteration
        for t in tasks:
            while not t.done():
                fut = loop.create_future()
                t.add_done_callback(lambda _t, f=fut: (not f.done()) and f.set_result(None))
                await fut
        loop.on_iteration = None
        return None

    kind, payload = loop.run_to_verdict(main())
    out: List[Obs] = []
    for i, rc in enumerate(rcs):
        t = tasks[i] if i < len(tasks) else None
        k, res, exc = kind, None, None
        if t is not None and t.done():
            if t.cancelled():
                k, exc = "cancelled", asyncio.CancelledError()
            else:
                e = t.exception()
                if e is not None:
                    if is_control_flow(e):
                        cf_guard.note(e)
                    k, exc = "raised", e
                else:
                    k, res = "done", t.result()
        elif kind == "done":
            k = "deadlock"
        out.append(Obs(kind=k, result=res, exc=exc, rc=rc, iterations=loop.iterations,
                       pending_tasks=[], input_kwargs_after=inps[i], input_kwargs_before=befores[i],
                       dag=charts[i].entrypoint, chart=charts[i], cancel_delivered=state["cancelled_at"] if i == 0 else None))
    for t in loop.tasks:
        if t.done() and not t.cancelled():
            e = t.exception()
            if e is not None and is_control_flow(e):
                cf_guard.note(e)
    for rc in rcs:
        rc.frozen = True
    loop.shutdown()
    cf_guard.check()
    return out


def graph_snapshot(dag: Any) -> Dict[str, Any]:
    g = dag.graph
    return {
        "nodes": {n: dict(g.nodes[n]) for n in g.nodes},
        "edges": {"%s->%s" % (u, v): dict(g.edges[u, v]) for u, v in g.edges},
        "node_map": {k: v for k, v in dag.node_map.items()},
        "io": (dag.input_node, dag.output_node, dag.is_process_pool_needed, dag.is_thread_pool_needed),
    }


def snapshot_diff(a: Dict[str, Any], b: Dict[str, Any]) -> Optional[str]:
    for sect in ("nodes", "edges"):
        if sorted(a[sect].keys()) != sorted(b[sect].keys()):
            return "%s_changed" % sect
        for k in a[sect]:
            da, db = a[sect][k], b[sect][k]
            ka = sorted(str(x.value if hasattr(x, "value") else x) for x in da.keys())
            kb = sorted(str(x.value if hasattr(x, "value") else x) for x in db.keys())
            if ka != kb:
                return "%s_attr_keys:%s:%s" % (sect, k, ",".join(sorted(set(ka) ^ set(kb))))
            for key in da:
                va, vb = da[key], db[key]
                if isinstance(va, (bool, str, list, tuple, type(None))) or isinstance(vb, (bool, str, list, tuple, type(None))):
                    if type(va) is not type(vb) or va != vb:
                        return "%s_attr_value:%s:%s" % (sect, k, key.value if hasattr(key, "value") else key)
                elif not bool(va == vb):
                    return "%s_attr_value:%s:%s" % (sect, k, key.value if hasattr(key, "value") else key)
    if sorted(a["node_map"].keys()) != sorted(b["node_map"].keys()) or any(
            a["node_map"][k] is not b["node_map"][k] for k in a["node_map"]):
        return "node_map_changed"
    if a["io"] != b["io"]:
        return "dag_fields_changed"
    return None
