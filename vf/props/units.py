"""Unit-level jobs on small pure components the scheduling properties lean on.

* storage_step: ONE inductive step of DAGNodeStorage / HiddenDict from an ARBITRARY pre-state (so histories of any
  length are covered), differential against a 25-line model of "a dict that can hide keys until they are set again".
  Anchors: C03/C04/C11 (hidden results of an earlier iteration must not satisfy readiness; processed marks), C02/C10
  (exists_result_type as success test).
* subgraph_nodes: get_connected_subgraph on every DAG with <= 5 nodes (adjacency bits symbolic) = the nodes lying on a
  path source -> dest.  Anchors: C01/C04/C11 ("which nodes belong to a (sub)run"; "exactly the nodes on dependency paths
  from the start node to the destination are re-executed")."""
from __future__ import annotations

from typing import Any, Dict, List, Optional, Tuple

from ..harness import untraced
from ..jobs import Job, register

KEYS = ("a", "b")
VALS = ("int", "none", "zero", "recurrent", "error")


def make_storage() -> Any:
    def mk() -> Any:
        from ml_pipeline_engine.dag.storage import DAGNodeStorage
        from ml_pipeline_engine.types import Recurrent

        ERR = ValueError("x")
        REC = Recurrent(data=1)

        def val(kind: str) -> Any:
            return {"int": 5, "none": None, "zero": 0, "recurrent": REC, "error": ERR}[kind]

        OPS = ("set_node_result", "hide_last_execution", "set_node_as_processed", "copy_node_result", "hide_node_result")

        def h(sym: Any) -> Tuple[str, Dict[str, Any]]:
            st = DAGNodeStorage()
            model_vals: Dict[str, Any] = {}
            model_hidden = set()
            model_proc: Dict[str, int] = {}
            model_proc_hidden = set()
            # arbitrary pre-state (representation invariant of HiddenDict: none beyond 'hidden is a set of keys').
            # The key the operation touches gets the full pre-state; the other key matters only as the target/source of
            # copy_node_result and is left empty otherwise.
            op = OPS[sym.choice("op", len(OPS))]
            k = KEYS[sym.choice("key", 2)]
            for q in KEYS:
                full = (q == k)
                if not full and op != "copy_node_result":
                    continue
                if sym.bool("pre.%s.present" % q):
                    v = val(VALS[sym.choice("pre.%s.val" % q, len(VALS))])
                    st.node_results.data[q] = v
                    model_vals[q] = v
                if sym.bool("pre.%s.hidden" % q):
                    st.node_results._hidden_keys.add(q)
                    model_hidden.add(q)
                if full and sym.bool("pre.%s.processed" % q):
                    st.processed_nodes.data[q] = 1
                    model_proc[q] = 1
                if full and sym.bool("pre.%s.processed_hidden" % q):
                    st.processed_nodes._hidden_keys.add(q)
                    model_proc_hidden.add(q)
            if op == "set_node_result":
                v = val(VALS[sym.choice("val", len(VALS))])
                st.set_node_result(k, v)
                model_vals[k] = v
                model_hidden.discard(k)
            elif op == "hide_last_execution":
                st.hide_last_execution(k)
                model_hidden.add(k)
                model_proc_hidden.add(k)
            elif op == "hide_node_result":
                st.hide_node_result(k)
                model_hidden.add(k)
            elif op == "set_node_as_processed":
                st.set_node_as_processed(k)
                model_proc[k] = 1
                model_proc_hidden.discard(k)
            else:
                k2 = KEYS[1 - KEYS.index(k)]
                st.copy_node_result(k, k2)  # reads with_hidden=True
                model_vals[k2] = model_vals.get(k)
                model_hidden.discard(k2)
            label = None
            for q in KEYS:
                present = q in model_vals
                vis = present and q not in model_hidden
                mv = model_vals.get(q)
                checks = [
                    ("exists_node_result", st.exists_node_result(q), vis),
                    ("exists_node_result_with_hidden", st.exists_node_result(q, with_hidden=True), present),
                    ("get_node_result", st.get_node_result(q), mv if vis else None),
                    ("get_node_result_with_hidden", st.get_node_result(q, with_hidden=True), mv if present else None),
                    ("exists_node_error", st.exists_node_error(q), vis and isinstance(mv, BaseException)),
                    ("exists_result_type_not_recurrent", st.exists_result_type(q, exclude_type=(Recurrent,)),
                     vis and mv is not None and not isinstance(mv, Recurrent)),
                    ("exists_result_type_not_recurrent_none_ok",
                     st.exists_result_type(q, exclude_type=(Recurrent,), exclude_none=False),
                     not isinstance(mv if vis else None, Recurrent)),
                    ("exists_processed_node", st.exists_processed_node(q), q in model_proc and q not in model_proc_hidden),
                    ("exists_processed_node_with_hidden", st.exists_processed_node(q, with_hidden=True), q in model_proc),
                ]
                for name, got, want in checks:
                    if not (got is want or got == want):
                        label = "storage:%s(%s) after %s(%s): %r != %r" % (name, q, op, k, got, want)
                        break
                if label:
                    break
            info = {"digest": [label, op, k], "goals": ["op:" + op], "summary": {"op": op, "key": k}}
            return (label or "ok"), info

        return h

    return mk


def make_subgraph(n: int = 5) -> Any:
    def mk() -> Any:
        import networkx as nx

        from ml_pipeline_engine.dag.graph import DiGraph, get_connected_subgraph

        def h(sym: Any) -> Tuple[str, Dict[str, Any]]:
            edges = []
            for i in range(n):
                for j in range(i + 1, n):
                    if sym.bool("e%d%d" % (i, j)):
                        edges.append((i, j))
            src = sym.choice("source", n - 1)
            dst = src + 1 + sym.choice("dest_offset", n - 1 - src)
            rec = sym.bool("is_recurrent")
            label = None
            with untraced():
                g = DiGraph(name="g")
                g.add_nodes_from("n%d" % i for i in range(n))
                g.add_edges_from(("n%d" % a, "n%d" % b) for a, b in edges)
                sub = get_connected_subgraph(g, "n%d" % src, "n%d" % dst, is_recurrent=rec)
                reach_from = {src}
                for a, b in sorted(edges):
                    if a in reach_from:
                        reach_from.add(b)
                reach_to = {dst}
                for a, b in sorted(edges, reverse=True):
                    if b in reach_to:
                        reach_to.add(a)
                want = sorted("n%d" % v for v in (reach_from & reach_to)) if dst in reach_from else []
                got = sorted(sub.nodes)
                if got != want:
                    label = "subgraph_nodes:%s!=%s" % (got, want)
                elif want:
                    want_edges = sorted(("n%d" % a, "n%d" % b) for a, b in edges
                                        if "n%d" % a in want and "n%d" % b in want)
                    if sorted(sub.edges) != want_edges:
                        label = "subgraph_edges"
                    elif sub.is_recurrent != rec or sub.source != "n%d" % src or sub.dest != "n%d" % dst:
                        label = "subgraph_attributes"
            info = {"digest": [label, edges, src, dst], "goals": ["nonempty" if want else "empty"],
                    "summary": {"edges": edges, "source": src, "dest": dst}}
            return (label or "ok"), info

        return h

    return mk


SDOC = {"template": "unit: one operation of DAGNodeStorage from an arbitrary pre-state, vs. a model",
        "symbolic": ["pre-state per key: present, value kind (int/None/0/Recurrent/exception), hidden, processed, processed-hidden",
                     "operation (5)", "key", "value kind"],
        "functions": ["ml_pipeline_engine/dag/storage.py::HiddenDict.get/exists/set/hide, DAGNodeStorage.set_node_result/"
                      "get_node_result/exists_node_result/copy_node_result/exists_node_error/exists_result_type/"
                      "set_node_as_processed/exists_processed_node/hide_last_execution/hide_node_result"],
        "bounds": "2 keys; one step from any pre-state (inductive: histories of any length)"}
GDOC = {"template": "unit: get_connected_subgraph on every DAG with 5 nodes (10 symbolic adjacency bits)",
        "symbolic": ["adjacency bits", "source", "dest", "is_recurrent"],
        "functions": ["ml_pipeline_engine/dag/graph.py::get_connected_subgraph, DiGraph"],
        "bounds": "n = 5 nodes (1024 graphs x 10 source/dest pairs); networkx runs natively per case"}
for prop in ("C02", "C03", "C04", "C10", "C11"):
    register(Job(prop, "unit_storage_step", make_storage(), tier="quick", budget_s=400,
                 parts=[{"op": o, "key": k} for o in range(5) for k in range(2)],
                 goals=tuple("op:" + o for o in ("set_node_result", "hide_last_execution", "copy_node_result")), doc=SDOC))
for prop in ("C01", "C04", "C11"):
    register(Job(prop, "unit_subgraph_nodes_n4", make_subgraph(4), tier="quick", budget_s=400,
                 parts=[{"source": s, "e01": a} for s in range(3) for a in range(2)],
                 goals=("nonempty", "empty"), doc=dict(GDOC, template="unit: get_connected_subgraph on every DAG with 4 nodes",
                                                       bounds="n = 4 nodes (64 graphs x 6 source/dest pairs)")))
    register(Job(prop, "unit_subgraph_nodes_n5", make_subgraph(5), tier="thorough", budget_s=1200,
                 parts=[{"source": s, "e01": a, "e02": b} for s in range(4) for a in range(2) for b in range(2)],
                 goals=("nonempty", "empty"), doc=GDOC))
