"""C07 — a chart is reusable (history harness); C08 — overlapping runs do not interfere.

Both are differential: the oracle is the same behaviour executed on a freshly built chart in the
same path, so they are independent of the reference interpreter and of other defects."""
from __future__ import annotations

from typing import Any, Dict, List, Optional, Tuple

from .. import catalogue as C
from .. import verdicts as V
from ..harness import (Cfg, Obs, build_chart, graph_snapshot, run_engine, run_overlapping, set_pools,
                       snapshot_diff)
from ..jobs import Job, register
from ..spec import Behaviour, Spec
from .common import doc


def same_outcome(a: Obs, b: Obs, strict_order: bool = True) -> Optional[str]:
    if a.rc.reused:
        return "node_instance_reused:%s" % a.rc.reused[0]
    if a.rc.bad:
        where, what = a.rc.bad[0]
        return "bad:%s.%s:%s" % (where[0], where[1], what)
    if a.kind != b.kind:
        return "kind:%s/%s" % (a.kind, b.kind)
    if a.kind == "done":
        if (a.error is None) != (b.error is None):
            return "failure:%s/%s" % (type(a.error).__name__, type(b.error).__name__)
        if a.error is not None:
            if type(a.error) is not type(b.error):
                return "error_type:%s/%s" % (type(a.error).__name__, type(b.error).__name__)
        elif not V.same(a.value, b.value):
            return "value"
    if a.kind == "raised" and type(a.exc) is not type(b.exc):
        return "raised_type:%s/%s" % (type(a.exc).__name__, type(b.exc).__name__)
    if strict_order:
        ia = [(i.node, i.k) for i in a.rc.invs]
        ib = [(i.node, i.k) for i in b.rc.invs]
        if ia != ib:
            return "invocations"
        for x, y in zip(a.rc.invs, b.rc.invs):
            if sorted(x.kwargs.keys()) != sorted(y.kwargs.keys()):
                return "kwarg_names:%s" % x.node
            for key in x.kwargs:
                if not V.same(x.kwargs[key], y.kwargs[key]):
                    return "kwarg_value:%s.%s" % (x.node, key)
    return None


# ------------------------------------------------------------------------------------ C07
def make_c07(spec_factory: Any, k_runs: int, beh_kw: Optional[Dict[str, Any]] = None, collab: bool = False) -> Any:
    def mk() -> Any:
        spec = spec_factory()
        set_pools()

        def h(sym: Any) -> Tuple[str, Dict[str, Any]]:
            cfg = Cfg(rev_taskset=False, events=collab, store=collab)
            chart = build_chart(spec, cfg)
            snap0 = graph_snapshot(chart.entrypoint)
            label = None
            digest: List[Any] = []
            goals: List[str] = []
            hist = []
            for i in range(k_runs):
                beh = Behaviour(sym, spec, run="r%d" % i, **(beh_kw or {}))
                shared = run_engine(spec, beh, cfg, chart=chart)
                fresh = run_engine(spec, beh, cfg)
                digest.append(shared.digest())
                hist.append("err" if (shared.kind != "done" or shared.error is not None) else "ok")
                lab = same_outcome(shared, fresh)
                if lab:
                    label = "run%d_differs_from_fresh_chart:%s" % (i, lab)
                    break
                lab = snapshot_diff(snap0, graph_snapshot(chart.entrypoint))
                if lab:
                    label = "dag_mutated_after_run%d:%s" % (i, lab)
                    break
                lab = V.input_untouched(shared)
                if lab:
                    label = "run%d:%s" % (i, lab)
                    break
            goals.append("history:" + ",".join(hist))
            if "err" in hist and "ok" in hist:
                goals.append("mixed_history")
            if len(hist) > 1 and hist[0] == "err" and hist[-1] == "ok":
                goals.append("success_after_failure")
            info = {"digest": digest, "goals": goals, "summary": {"history": hist}}
            return (label or "ok"), info

        return h

    return mk


SYM7 = ["per run: caller input, durations, outcome kinds, labels, want (each run has its own variables)"]
for name, f, k, tier, goals in [
    ("plain_rhombus", lambda: C.rhombus(True), 2, "quick", ("mixed_history",)),
    ("switch", lambda: C.switch_basic(False, True), 2, "quick", ()),
    ("oneof_fallback", C.oneof_basic, 2, "quick", ("mixed_history",)),
    ("recurrent", lambda: C.rec_simple(1, True), 2, "quick", ()),
    ("recurrent_inner", lambda: C.rec_inner_start(1, True), 2, "quick", ()),
    # a run that ends abnormally in the middle of a re-iteration (a node failing in iteration >= 1, iterations exhausted
    # without a default, a failure contained by a one-of) must leave as little behind as one that ends normally
    ("recurrent_failing", lambda: C.rec_simple(2, False, True), 2, "quick", ("mixed_history",)),
    ("recurrent_in_oneof", C.rec_in_oneof, 2, "quick", ()),
    ("recurrent_generic_start", C.rec_generic_start, 2, "quick", ()),
    ("oneof_fallback_3runs", C.oneof_basic, 3, "thorough", ("mixed_history", "success_after_failure")),
    ("recurrent_3runs", lambda: C.rec_simple(1, True), 3, "thorough", ()),
    ("oneof_nested", C.oneof_nested, 2, "thorough", ()),
]:
    register(Job("C07", name, make_c07(f, k, {"sym_dur": False}), tier=tier, budget_s=400 if tier == "quick" else 1500,
                 goals=goals,
                 doc=doc(name, SYM7, {"bounds": "%d sequential runs on one chart; durations fixed to 0 (the comparison is "
                                               "against the same schedule on a fresh chart, schedules are C01/C08's "
                                               "subject); caller input in [-1000,1000]" % k})))


for name, f, k, durs in [
    ("oneof_fallback_durations", C.oneof_basic, 2, {"C1", "C2"}),
    ("recurrent_durations", lambda: C.rec_simple(1, True), 2, {"M", "D"}),
    ("switch_shared_case_3runs", C.switch_shared_case, 3, set()),
    ("oneof_diamond_3runs", C.oneof_diamond, 3, set()),
    ("rec_with_switch_2runs", lambda: C.rec_with_switch(1), 2, set()),
]:
    register(Job("C07", name, make_c07(f, k, {"dur_nodes": durs} if durs else {"sym_dur": False}), tier="thorough", budget_s=2400,
                 doc=doc(name, SYM7, {"bounds": "%d sequential runs on one chart; symbolic durations for %s" % (k, sorted(durs) or "no node")})))


register(Job("C07", "rhombus_with_collaborators", make_c07(lambda: C.rhombus(True), 2, {"sym_dur": False}, collab=True),
             tier="quick", budget_s=300, goals=("mixed_history",),
             doc=doc("rhombus with a recording event manager and artifact store on the chart", SYM7,
                     {"bounds": "2 runs; every run must get its own event-manager and store objects"})))


# ------------------------------------------------------------------------------------ C08
def make_c08(spec_factory: Any, share: str = "chart", beh_kw: Optional[Dict[str, Any]] = None,
             cancel: Optional[int] = None, collab: bool = False, stagger: bool = False) -> Any:
    def mk() -> Any:
        spec = spec_factory()
        set_pools()

        def h(sym: Any) -> Tuple[str, Dict[str, Any]]:
            cfg = Cfg(rev_taskset=False, events=collab, store=collab)
            behs = [Behaviour(sym, spec, run="r%d" % i, **(beh_kw or {})) for i in range(2)]
            if share == "chart":
                ch = build_chart(spec, cfg)
                charts = [ch, ch]
            else:
                charts = [build_chart(spec, cfg), build_chart(spec, cfg)]
            cancel_at = sym.int("cancel_at", 0, cancel) if cancel else None
            delays = [0, sym.int("r1.start_delay", 0, 86399)] if stagger else None
            both = run_overlapping(spec, behs, cfg, charts, cancel_first_at=cancel_at, start_delays=delays)
            label = None
            goals = []
            for i, o in enumerate(both):
                if i == 0 and o.cancel_delivered is not None:
                    goals.append("first_run_cancelled")
                    if o.kind != "cancelled":
                        label = "cancel_surfaced_as:%s" % o.kind
                    continue
                solo = run_engine(spec, behs[i], cfg)
                if V.hang(solo):
                    # a run that hangs alone is C02's subject; it must hang here too
                    if o.kind != solo.kind:
                        label = "run%d:kind:%s/%s" % (i, o.kind, solo.kind)
                    continue
                lab = same_outcome(o, solo, strict_order=False)
                if lab:
                    label = "run%d_differs_from_solo:%s" % (i, lab)
                    break
                # a payload object the caller hands to several runs is shared state of the caller's, not of the engine's
                lab = V.input_untouched(o)
                if lab:
                    label = "run%d:%s" % (i, lab)
                    break
            kinds = ["err" if (o.kind != "done" or o.error is not None) else "ok" for o in both]
            if "err" in kinds and "ok" in kinds:
                goals.append("one_fails_other_succeeds")
            if all(k == "ok" for k in kinds):
                goals.append("both_succeed")
            if any(any(inv.k > 0 for inv in o.rc.invs) for o in both):
                goals.append("reiteration_or_retry")
            info = {"digest": [o.digest() for o in both], "goals": goals,
                    "summary": {"kinds": [o.kind for o in both]}}
            return (label or "ok"), info

        return h

    return mk


SYM8 = ["per run: caller input, durations of the listed nodes (so every interleaving of the two runs' completions), "
        "outcome kinds, want"]


def _parts2(names: List[Tuple[str, int]]) -> List[Dict[str, Any]]:
    parts: List[Dict[str, Any]] = [{}]
    for nm, n in names:
        parts = [dict(p, **{"r%d.%s" % (r, nm): i}) if False else dict(p, **{nm: i}) for p in parts for i in range(n)]
    return parts


def _rhombus_b() -> Spec:
    from ..spec import E1, OK, In, Node
    return Spec("rhombus", [Node("A"), Node("B", (("a", In("A")),), kinds=(OK, E1)), Node("C", (("a", In("A")),)),
                            Node("D", (("b", In("B")), ("c", In("C"))))], "A", "D")


for name, f, share, tier, kw, goals, parts in [
    ("rhombus_shared_chart", _rhombus_b, "chart", "quick", {"dur_nodes": {"B", "C"}},
     ("one_fails_other_succeeds", "both_succeed"), _parts2([("r0.B.kind0", 2), ("r1.B.kind0", 2)])),
    ("oneof_shared_chart", C.oneof_basic, "chart", "quick", {"dur_nodes": {"C1", "C2"}}, ("one_fails_other_succeeds",),
     _parts2([("r0.C1.kind0", 2), ("r1.C1.kind0", 2), ("r0.C2.kind0", 2), ("r1.C2.kind0", 2)])),
    ("recurrent_shared_chart", lambda: C.rec_simple(1, True), "chart", "quick", {"dur_nodes": {"M", "D"}},
     ("reiteration_or_retry",), _parts2([("r0.D.want", 3), ("r1.D.want", 3)])),
    ("recurrent_two_charts", lambda: C.rec_simple(1, True), "classes", "quick", {"dur_nodes": {"M", "D"}},
     ("reiteration_or_retry",), _parts2([("r0.D.want", 3), ("r1.D.want", 3)])),
    ("switch_shared_chart", lambda: C.switch_basic(False, False), "chart", "quick", {"dur_nodes": {"S", "X", "Y"}}, (),
     _parts2([("r0.S.label0", 2), ("r1.S.label0", 2)])),
    ("switch_shared_case_shared_chart", C.switch_shared_case, "chart", "quick", {"dur_nodes": {"X"}}, (),
     _parts2([("r0.S.label0", 2), ("r1.S.label0", 2)])),
    ("switch_fallible_shared_chart", lambda: C.switch_basic(False, True), "chart", "thorough", {"dur_nodes": {"S", "X", "Y"}}, (),
     _parts2([("r0.S.label0", 2), ("r1.S.label0", 2), ("r0.X.kind0", 2), ("r1.X.kind0", 2)])),
    ("recurrent_inner_shared_chart", lambda: C.rec_inner_start(1, True), "chart", "thorough",
     {"dur_nodes": {"M", "Side"}}, (), _parts2([("r0.D.want", 3), ("r1.D.want", 3), ("r0.M.kind0", 1)])),
    ("rhombus_three_durations", _rhombus_b, "chart", "thorough", {"dur_nodes": {"A", "B", "C"}}, (),
     _parts2([("r0.B.kind0", 2), ("r1.B.kind0", 2)])),
]:
    register(Job("C08", name, make_c08(f, share, kw), tier=tier, budget_s=400 if tier == "quick" else 2400, goals=goals,
                 parts=parts,
                 doc=doc(name, SYM8, {"bounds": "2 overlapping runs on one virtual loop; symbolic durations for nodes %s of "
                                               "each run, the others 0; process-wide pool registries are stubbed (their "
                                               "sharing is outside the claim)" % sorted(kw["dur_nodes"])})))
register(Job("C08", "rhombus_cancel_first", make_c08(lambda: C.rhombus(False), "chart", {"dur_nodes": {"B", "C"}}, cancel=20),
             tier="quick", budget_s=400, goals=("first_run_cancelled",),
             parts=[{"cancel_at": i} for i in range(21)],
             doc=doc("rhombus, first run cancelled at a loop iteration 0..20 (one part each)", SYM8)))

register(Job("C08", "rhombus_with_collaborators", make_c08(_rhombus_b, "chart", {"dur_nodes": {"B"}}, collab=True), tier="quick",
             budget_s=300, parts=_parts2([("r0.B.kind0", 2), ("r1.B.kind0", 2)]), goals=("one_fails_other_succeeds",),
             doc=doc("rhombus with a recording event manager and artifact store, two overlapping runs", SYM8,
                     {"bounds": "every run must get its own event-manager and store objects"})))


# the second run starts while the first is somewhere in the middle (symbolic start delay), and the first may be cancelled
# there: state that a run keeps outside itself only *while* it is inside a construct is visible to exactly such a neighbour
register(Job("C08", "oneof_staggered_start", make_c08(C.oneof_basic, "chart", {"dur_nodes": {"C1"}}, stagger=True), tier="quick",
             budget_s=400, goals=("one_fails_other_succeeds",),
             parts=_parts2([("r0.C1.kind0", 2), ("r1.C1.kind0", 2), ("r0.C2.kind0", 2), ("r1.C2.kind0", 2)]),
             doc=doc("oneof_basic, two runs on one chart, the second started after a symbolic delay", SYM8 + ["start delay of run 1"])))
register(Job("C08", "oneof_cancel_first_then_second", make_c08(C.oneof_basic, "chart", {"dur_nodes": {"C1"}}, cancel=24, stagger=True),
             tier="quick", budget_s=400, goals=("first_run_cancelled",),
             parts=[{"cancel_at": i} for i in range(0, 25, 2)],
             doc=doc("oneof_basic, first run cancelled at a loop iteration, second run started after a symbolic delay", SYM8)))
register(Job("C08", "recurrent_staggered_start", make_c08(lambda: C.rec_simple(1, True), "chart", {"dur_nodes": {"M"}}, stagger=True),
             tier="thorough", budget_s=2400, parts=_parts2([("r0.D.want", 3), ("r1.D.want", 3)]),
             doc=doc("rec_simple, two runs on one chart, the second started after a symbolic delay", SYM8 + ["start delay of run 1"])))
