"""C15 — build_dag is a faithful translation of the declared dependencies.

(1) Family job: the program (which node every parameter binds to, which mark kind) is symbolic; the solver
case-splits the selectors, build_dag runs natively on each concrete declaration set, and the built graph is
compared with the relation computed independently from the program description.
(2) Naming jobs: get_node_id / generate_node_id executed symbolically on symbolic strings (CrossHair/z3
string theory): distinct declarations give distinct ids."""
from __future__ import annotations

from typing import Any, Dict, List, Optional, Tuple

from .. import family as F
from ..harness import untraced
from ..jobs import Job, register


def make_family() -> Any:
    def mk() -> Any:
        from ml_pipeline_engine.dag_builders.annotation.builder import build_dag
        from ..fam_nodes import CLASSES

        def h(sym: Any) -> Tuple[str, Dict[str, Any]]:
            prog = F.program(sym)
            recs = [m for i in (3, 4) for _, m in prog[i] if m[0] == "rec"]
            if len(recs) == 2 and recs[0][2] == recs[1][2] and recs[0][1] != recs[1][1]:
                sym.assume(False)  # one destination declared with two different start nodes: not well-formed
            label = None
            with untraced():
                F.annotate(prog, CLASSES)
                try:
                    dag = build_dag(input_node=CLASSES[0], output_node=CLASSES[4])
                except Exception as e:  # noqa: BLE001
                    dag = None
                    label = "valid_program_rejected:%s" % type(e).__name__
                if dag is not None:
                    got = F.canon(dag)
                    exp = F.expected(prog)
                    label = F.diff(exp, got)
                    if label is None:
                        # every declared parameter is delivered under its own name
                        for i in F.reachable(prog):
                            want = sorted(p for p, _ in prog[i])
                            have = sorted(a["kwarg_name"] for (u, v), a in got["edges"].items()
                                          if v == F.nid(i) and a.get("kwarg_name") is not None)
                            if want != have:
                                label = "parameter_dropped_or_merged:f%d:declared=%s:delivered=%s" % (
                                    i, ",".join(want), ",".join(have))
                                break
                    if label is None:
                        F.annotate(prog, CLASSES, reverse_params=True)
                        dag2 = build_dag(input_node=CLASSES[0], output_node=CLASSES[4])
                        d2 = F.diff(got, F.canon(dag2))
                        if d2:
                            label = "declaration_order_dependent:" + d2
            kinds = [prog[3][0][1][0], prog[4][0][1][0]]
            goals = ["n3:" + kinds[0], "n4:" + kinds[1]]
            if len(prog[4]) > 1:
                goals.append("two_params")
            info = {"digest": [label, repr(prog)], "goals": goals, "summary": {"program": repr(prog[1:])}}
            return (label or "ok"), info

        return h

    return mk


def make_unnamed_switch() -> Any:
    """A node with an UNNAMED SwitchCase parameter (synthetic id = random uuid) consumed by two nodes at different
    depths; every traversal / declaration order must yield exactly one synthetic switch node feeding it."""
    def mk() -> Any:
        from ml_pipeline_engine.dag_builders.annotation import marks as M
        from ml_pipeline_engine.dag_builders.annotation.builder import build_dag
        from ..fam_nodes import CLASSES

        def h(sym: Any) -> Tuple[str, Dict[str, Any]]:
            n2_src = sym.choice("n2_src", 2)
            case_order = sym.choice("case_order", 2)
            mid_src = sym.choice("mid_src", 2)      # N4 = In(N3) (deeper consumer of N3) or In(N2)
            out_order = sym.choice("out_param_order", 2)
            second_unnamed = sym.bool("second_unnamed_switch_same_decider")
            label = None
            with untraced():
                F0, F1, F2, F3, F4 = CLASSES
                import typing as t
                ad = {"additional_data": t.Optional[t.Any]}
                F0.process.__annotations__ = dict(ad)
                F1.process.__annotations__ = dict({"a": M.Input(F0)}, **ad)
                F2.process.__annotations__ = dict({"a": M.Input([F0, F1][n2_src])}, **ad)
                cases = [("l1", F1), ("l2", F2)]
                if case_order:
                    cases.reverse()
                F3.process.__annotations__ = dict({"v": M.SwitchCase(switch=F0, cases=cases)}, **ad)  # name=None
                def _mid_process(self: Any, **kwargs: Any) -> Any:
                    return 0

                mid = type("Mid", (F1.__mro__[1],), {"process": _mid_process, "name": "mid"})
                # a SECOND unnamed switch, driven by the same decider F0 with other cases: it is a different declaration
                # and needs its own synthetic node
                mid_ann = {"a": M.Input([F3, F2][mid_src])}
                if second_unnamed:
                    mid_ann["w"] = M.SwitchCase(switch=F0, cases=[("l1", F2), ("l2", F1)])
                mid.process.__annotations__ = dict(mid_ann, **ad)
                marks = [("x", M.Input(F3)), ("y", M.Input(mid))]
                if out_order:
                    marks.reverse()
                F4.process.__annotations__ = dict(dict(marks), **ad)
                dag = build_dag(input_node=F0, output_node=F4)
                g = dag.graph
                switches = [n for n in g.nodes if g.nodes[n].get("is_switch")]
                want_sw = 2 if second_unnamed else 1
                if len(switches) != want_sw:
                    label = "synthetic_switch_nodes:%d_for_%d_switch_parameters" % (len(switches), want_sw)
                elif second_unnamed:
                    feeds = sorted(tuple(sorted(g.successors(sw))) for sw in switches)
                    if feeds != [("processor__f3",), ("processor__mid",)]:
                        label = "switch_consumers:%s" % (feeds,)
                    else:
                        for sw in switches:
                            cons = list(g.successors(sw))[0]
                            cases = {g.edges[u, sw].get("case_branch"): u for u in g.predecessors(sw) if g.edges[u, sw].get("case_branch")}
                            exp_cases = ({"l1": "processor__f2", "l2": "processor__f1"} if cons == "processor__mid" else
                                         ({"l1": "processor__f1", "l2": "processor__f2"}))
                            if cons == "processor__f3" and case_order:
                                exp_cases = {"l2": "processor__f2", "l1": "processor__f1"}
                            if cases != exp_cases:
                                label = "switch_cases_of_%s:%s" % (cons, sorted(cases.items()))
                else:
                    into = [(u, g.edges[u, "processor__f3"].get("kwarg_name")) for u in g.predecessors("processor__f3")]
                    deliver = [k for _, k in into if k is not None]
                    if deliver != ["v"]:
                        label = "switch_parameter_delivery:%s" % deliver
                    elif sorted(g.predecessors(switches[0])) != ["processor__f0", "processor__f1", "processor__f2"]:
                        label = "switch_node_inputs:%s" % sorted(g.predecessors(switches[0]))
            info = {"digest": [label], "goals": ["mid_src:%d" % mid_src, "order:%d" % out_order, "second:%d" % int(second_unnamed)],
                    "summary": {"n2_src": n2_src, "mid_src": mid_src, "out_param_order": out_order}}
            return (label or "ok"), info

        return h

    return mk


FUN = ["ml_pipeline_engine/dag_builders/annotation/builder.py::AnnotationDAGBuilder (all methods), build_dag",
       "ml_pipeline_engine/node/node.py::get_node_id, generate_node_id, get_callable_run_method",
       "ml_pipeline_engine/dag/dag.py::DAG"]
register(Job("C15", "family_n5", make_family(), tier="quick", budget_s=600,
             parts=[{"n3_kind": a, "n4_kind": b} for a in range(4) for b in range(4)],
             goals=("n3:in", "n3:sw", "n3:oneof", "n3:rec", "n4:in", "n4:sw", "n4:oneof", "n4:rec", "two_params"),
             doc={"template": "family: 5 declarations, N3 and N4 carry any mark kind over any earlier nodes, N4 optionally "
                              "a second Input parameter; parameter order also reversed",
                  "symbolic": ["mark kind and bound nodes of N3's parameter", "mark kind and bound nodes of N4's parameter",
                               "source of N2", "N4's optional second parameter"],
                  "functions": FUN,
                  "bounds": "5 node classes, <= 2 parameters on the output node, nodes inside one mark pairwise distinct "
                            "(well-formedness), one destination has one start node; ~3600 programs, all case-split by z3",
                  "assumptions": ["build_dag runs natively on the concrete declarations of each case (networkx cannot be traced)"]}))


register(Job("C15", "unnamed_switch_two_depths", make_unnamed_switch(), tier="quick", budget_s=200,
             goals=("mid_src:0", "mid_src:1", "order:0", "order:1", "second:1"),
             doc={"template": "N3 has an unnamed SwitchCase parameter; N3 is consumed by the output node and by a middle node",
                  "symbolic": ["source of N2", "case order", "what the middle node consumes", "parameter order of the output node"],
                  "functions": FUN, "bounds": "16 programs"}))


# ------------------------------------------------------------------ naming (symbolic strings)
ALPHA = "ab_"


def _wf(s: Any) -> bool:
    """Well-formed user-chosen name / node_type: non-empty, no '__', no leading/trailing '_'."""
    return len(s) > 0 and "__" not in s and not s.startswith("_") and not s.endswith("_")


def make_get_node_id() -> Any:
    def mk() -> Any:
        from ml_pipeline_engine.node.node import get_node_id

        def h(sym: Any) -> Tuple[str, Dict[str, Any]]:
            t1, n1 = sym.str("type1", 3, ALPHA), sym.str("name1", 3, ALPHA)
            t2, n2 = sym.str("type2", 3, ALPHA), sym.str("name2", 3, ALPHA)
            sym.assume(_wf(t1) and _wf(n1) and _wf(t2) and _wf(n2))
            with untraced():
                c1 = type("A", (), {})
                c2 = type("B", (), {})
            c1.node_type, c1.name = t1, n1
            c2.node_type, c2.name = t2, n2
            i1, i2 = get_node_id(c1), get_node_id(c2)
            label = None
            if (t1 != t2 or n1 != n2) and i1 == i2:
                label = "distinct_declarations_same_id"
            elif t1 == t2 and n1 == n2 and i1 != i2:
                label = "same_declaration_different_id"
            elif not (i1.startswith(t1) and i1.endswith(n1)):
                label = "id_does_not_carry_type_and_name"
            info = {"digest": [label], "goals": ["checked"], "summary": {}}
            return (label or "ok"), info

        return h

    return mk


def make_synthetic_ids() -> Any:
    def mk() -> Any:
        from ml_pipeline_engine.node.enums import NodeType
        from ml_pipeline_engine.node.node import generate_node_id, get_node_id

        def h(sym: Any) -> Tuple[str, Dict[str, Any]]:
            sw1, sw2 = sym.str("switch_name1", 2, ALPHA), sym.str("switch_name2", 2, ALPHA)
            t, n = sym.str("type", 2, ALPHA), sym.str("name", 2, ALPHA)
            idx1, idx2 = sym.choice("idx1", 3) * 5, sym.choice("idx2", 3) * 5  # 0, 5, 10
            sym.assume(_wf(sw1) and _wf(sw2) and _wf(t) and _wf(n))
            sym.assume(t != "switch" and t != "input_one_of")  # reserved synthetic prefixes
            with untraced():
                c = type("A", (), {})
            c.node_type, c.name = t, n
            real = get_node_id(c)
            s1 = generate_node_id(NodeType.switch.value, sw1)
            s2 = generate_node_id(NodeType.switch.value, sw2)
            h1 = generate_node_id(f"{NodeType.input_one_of.value}__{idx1}_", real)
            h2 = generate_node_id(f"{NodeType.input_one_of.value}__{idx2}_", real)
            label = None
            if sw1 != sw2 and s1 == s2:
                label = "distinct_switch_names_same_id"
            elif s1 == real or h1 == real or s1 == h1:
                label = "synthetic_id_collides_with_real_or_other_kind"
            elif idx1 != idx2 and h1 == h2:
                label = "distinct_oneof_positions_same_id"
            elif NodeType.by_prefix(s1) is not NodeType.switch or NodeType.by_prefix(h1) is not NodeType.input_one_of:
                label = "prefix_type_lookup_wrong"
            info = {"digest": [label], "goals": ["checked"], "summary": {}}
            return (label or "ok"), info

        return h

    return mk


NDOC = {"functions": ["ml_pipeline_engine/node/node.py::get_node_id, generate_node_id",
                      "ml_pipeline_engine/node/enums.py::NodeType.by_prefix"],
        "bounds": "every string component: length <= 3 over the alphabet {a, b, _} (the separator character is in the "
                  "alphabet on purpose); one-of position in [0,12]",
        "assumptions": ["well-formed user-chosen names/types: non-empty, no '__' inside, no leading/trailing '_', not a "
                        "reserved synthetic prefix (switch, input_one_of) — without this precondition separator-ambiguity "
                        "collisions exist, e.g. ('a','__') vs ('a_','_'); recorded in DESIGN as outside well-formedness"]}
register(Job("C15", "naming_get_node_id", make_get_node_id(), tier="quick", budget_s=300, goals=("checked",),
             doc={"template": "unit: get_node_id on two symbolic (node_type, name) pairs",
                  "symbolic": ["type1", "name1", "type2", "name2"], **NDOC}))
register(Job("C15", "naming_synthetic_ids", make_synthetic_ids(), tier="quick", budget_s=300, goals=("checked",),
             doc={"template": "unit: generate_node_id for switch / one-of heads vs a real node id",
                  "symbolic": ["two switch names (len <= 2)", "a real (type,name) (len <= 2 each)",
                               "two one-of positions in {0,5,10}"], **NDOC}))
