"""C17 — execution mode is transparent; a missing pool fails fast.

Symbolic: mode of every node in {coroutine, non_async(inline), thread, process}, durations, registry state of
each pool in {registered, None, shut down}.  Oracle: the all-coroutine assignment in the same path
(differential) and the reference interpreter.  Real ThreadPoolExecutor/ProcessPoolExecutor timing and
pickling are outside reach: the executor is the stub of vloop.py (stated, not claimed)."""
from __future__ import annotations

from typing import Any, Dict, List, Optional, Tuple

from .. import verdicts as V
from ..harness import Cfg, run_engine, set_pools, untraced
from ..jobs import Job, register
from ..refsem import Ref
from ..spec import E1, OK, Behaviour, In, Node, Spec
from .common import doc
from .c07_c08 import same_outcome

MODES = ("async", "inline", "thread", "process")
MODES6 = MODES + ("async_tag_inline", "async_tag_process")  # coroutine nodes that carry an (irrelevant) tag
STATES = ("ok", "none", "shut")


def _spec(shape: str, modes: List[str], fall: bool) -> Spec:
    k = (OK, E1) if fall else (OK,)
    if shape == "chain":
        return Spec("chain_modes", [Node("A", mode=modes[0]), Node("B", (("a", In("A")),), mode=modes[1], kinds=k),
                                    Node("C", (("b", In("B")),), mode=modes[2])], "A", "C")
    return Spec("rhombus_modes", [
        Node("A", mode=modes[0]), Node("B", (("a", In("A")),), mode=modes[1], kinds=k),
        Node("C", (("a", In("A")),), mode=modes[2]), Node("D", (("b", In("B")), ("c", In("C"))), mode=modes[3]),
    ], "A", "D")


def make(shape: str, n: int, registry: bool, fall: bool = True, n_sym_modes: Optional[int] = None) -> Any:
    def mk() -> Any:
        def h(sym: Any) -> Tuple[str, Dict[str, Any]]:
            k = n if n_sym_modes is None else n_sym_modes
            modes = [MODES[sym.choice("mode%d" % i, 4)] if i < k else "async" for i in range(n)]
            ts = STATES[sym.choice("thread_pool", 3)] if registry else "ok"
            ps = STATES[sym.choice("process_pool", 3)] if registry else "ok"
            with untraced():
                spec = _spec(shape, modes, fall)
                base = _spec(shape, ["async"] * n, fall)
                set_pools(ts, ps)
            beh = Behaviour(sym, spec)
            obs = run_engine(spec, beh, Cfg(rev_taskset=False))
            need_thread = "thread" in modes
            need_process = "process" in modes
            missing = (need_thread and ts != "ok") or (need_process and ps != "ok")
            label = V.hang(obs)
            goals = ["modes:" + "".join(m[0] for m in modes)] if False else []
            if label is None:
                if missing:
                    goals.append("needed_pool_missing")
                    if not (obs.kind == "done" and obs.error is not None):
                        label = "missing_pool_not_an_error_result:%s" % obs.kind
                    elif any(k in ("start", "body") for _, k, _, _ in obs.rc.log):
                        label = "node_invoked_although_pool_missing"
                elif ts == "ok" and ps == "ok":
                    goals.append("pools_ready")
                    with untraced():
                        set_pools("ok", "ok")
                    obs0 = run_engine(base, Behaviour(sym, base), Cfg(rev_taskset=False))
                    lab = same_outcome(obs, obs0, strict_order=False)
                    if lab:
                        label = "differs_from_all_coroutine:%s" % lab
                    else:
                        label = V.outcome(obs, Ref(spec, beh).run())
                    if label is None:
                        # a second run of the same declarations: every execution gets a fresh node object in every mode
                        # (state kept on self must not survive, otherwise process mode - a pickled copy - would differ)
                        obs2 = run_engine(spec, beh, Cfg(rev_taskset=False))
                        if obs2.rc.reused:
                            label = "node_instance_reused:%s" % obs2.rc.reused[0]
                else:
                    goals.append("unneeded_pool_missing")  # property silent (DESIGN C17): no assertion
            if len(set(modes)) >= 3:
                goals.append("three_modes_mixed")
            with untraced():
                set_pools("ok", "ok")
            info = {"digest": obs.digest() + [modes, ts, ps], "goals": goals,
                    "summary": {"modes": modes, "thread_pool": ts, "process_pool": ps, "engine": obs.kind,
                                "error": None if obs.error is None else type(obs.error).__name__}}
            return (label or "ok"), info

        return h

    return mk


def make_history() -> Any:
    """Registry history: a successful run with both pools registered, then a pool is shut down / unregistered,
    then the same pipeline is run again: the second run must fail fast (no node body invoked)."""
    def mk() -> Any:
        def h(sym: Any) -> Tuple[str, Dict[str, Any]]:
            modes = [MODES[sym.choice("mode%d" % i, 4)] for i in range(3)]
            ts = STATES[sym.choice("thread_pool_then", 3)]
            ps = STATES[sym.choice("process_pool_then", 3)]
            with untraced():
                spec = _spec("chain", modes, False)
                set_pools("ok", "ok")
            beh = Behaviour(sym, spec, sym_dur=False)
            from ..harness import build_chart

            chart = build_chart(spec, Cfg(rev_taskset=False))  # ONE chart / DAG object for both runs
            first = run_engine(spec, beh, Cfg(rev_taskset=False), chart=chart)
            label = V.hang(first)
            if label is None and not (first.kind == "done" and first.error is None):
                label = "first_run_failed:%s" % first.kind
            goals = []
            if label is None:
                with untraced():
                    set_pools(ts, ps)
                second = run_engine(spec, beh, Cfg(rev_taskset=False), chart=chart)
                missing = ("thread" in modes and ts != "ok") or ("process" in modes and ps != "ok")
                label = V.hang(second)
                if label is None and missing:
                    goals.append("pool_lost_between_runs")
                    if not (second.kind == "done" and second.error is not None):
                        label = "missing_pool_not_an_error_result:%s" % second.kind
                    elif any(k in ("start", "body") for _, k, _, _ in second.rc.log):
                        label = "node_invoked_although_pool_missing"
                elif label is None and ts == "ok" and ps == "ok":
                    goals.append("pools_still_ready")
                    if not (second.kind == "done" and second.error is None and V.same(second.value, first.value)):
                        label = "second_run_differs"
            with untraced():
                set_pools("ok", "ok")
            info = {"digest": [label, modes, ts, ps], "goals": goals,
                    "summary": {"modes": modes, "thread_pool_then": ts, "process_pool_then": ps}}
            return (label or "ok"), info

        return h

    return mk


F = ["ml_pipeline_engine/node/node.py::run_node (dispatch on coroutine-ness and tags)",
     "ml_pipeline_engine/dag/dag.py::DAG.run/_start_runtime_validation/_validate_pool_executors",
     "ml_pipeline_engine/parallelism/threads.py::PoolExecutorRegistry.is_ready",
     "ml_pipeline_engine/parallelism/processes.py::PoolExecutorRegistry.is_ready",
     "ml_pipeline_engine/parallelism/basic.py::PoolExecutorRegistry.get_pool_executor",
     "ml_pipeline_engine/dag_builders/annotation/builder.py::_is_executor_needed (native, at build time)"]
A = ["real thread/process pools replaced by the executor stub (completion after a symbolic duration, on the loop "
     "thread); registries hold dummy executor objects exposing _shutdown/_shutdown_thread",
     "an inline-only pipeline rejected because no thread pool is registered carries no assertion (the property is "
     "silent on pools that are not needed)"]
register(Job("C17", "chain_registry", make("chain", 3, True), tier="quick", budget_s=500,
             parts=[{"thread_pool": t, "process_pool": p, "mode0": m} for t in range(3) for p in range(3) for m in range(4)],
             goals=("needed_pool_missing", "pools_ready", "three_modes_mixed"),
             doc={"template": "3-node chain", "symbolic": ["mode per node (64 assignments)", "registry state per pool (9)",
                                                          "durations", "outcome kind of B", "caller input"],
                  "functions": F, "assumptions": A, "bounds": "3 nodes"}))
register(Job("C17", "rhombus_modes", make("rhombus", 4, False, n_sym_modes=3), tier="quick", budget_s=600,
             parts=[{"mode0": a, "mode1": b} for a in range(4) for b in range(4)],
             goals=("pools_ready", "three_modes_mixed"),
             doc={"template": "rhombus", "symbolic": ["mode of A, B, C (64 assignments; the output node is a coroutine)",
                                                     "durations", "outcome kind of B", "caller input"],
                  "functions": F, "assumptions": A, "bounds": "4 nodes, pools registered"}))
register(Job("C17", "rhombus_modes_all", make("rhombus", 4, False), tier="thorough", budget_s=1500,
             parts=[{"mode0": a, "mode1": b, "mode2": c} for a in range(4) for b in range(4) for c in range(4)],
             goals=("pools_ready", "three_modes_mixed"),
             doc={"template": "rhombus", "symbolic": ["mode per node (256 assignments)", "durations", "outcome kind of B", "caller input"],
                  "functions": F, "assumptions": A, "bounds": "4 nodes, pools registered"}))

register(Job("C17", "registry_history", make_history(), tier="quick", budget_s=300,
             parts=[{"thread_pool_then": t, "process_pool_then": p} for t in range(3) for p in range(3)],
             goals=("pool_lost_between_runs", "pools_still_ready"),
             doc={"template": "3-node chain, two runs; the registry state changes between them",
                  "symbolic": ["mode per node (64)", "registry state of each pool before the second run (9)", "caller input"],
                  "functions": F, "assumptions": A, "bounds": "2 runs, durations 0"}))


def make_tagged() -> Any:
    """Coroutine nodes that carry the non_async / process tag: the tag must not change how they run."""
    def mk() -> Any:
        def h(sym: Any) -> Tuple[str, Dict[str, Any]]:
            modes = [MODES6[sym.choice("mode%d" % i, 6)] for i in range(3)]
            with untraced():
                spec = _spec("chain", modes, False)
                base = _spec("chain", ["async"] * 3, False)
                set_pools("ok", "ok")
            beh = Behaviour(sym, spec, sym_dur=False)
            obs = run_engine(spec, beh, Cfg(rev_taskset=False))
            obs0 = run_engine(base, Behaviour(sym, base, sym_dur=False), Cfg(rev_taskset=False))
            label = V.hang(obs)
            if label is None:
                lab = same_outcome(obs, obs0, strict_order=False)
                if lab:
                    label = "differs_from_all_coroutine:%s" % lab
            goals = ["tagged_coroutine"] if any(m.startswith("async_tag") for m in modes) else []
            info = {"digest": obs.digest() + [modes], "goals": goals, "summary": {"modes": modes, "engine": obs.kind}}
            return (label or "ok"), info

        return h

    return mk


register(Job("C17", "tagged_coroutines", make_tagged(), tier="quick", budget_s=300,
             parts=[{"mode0": m} for m in range(6)], goals=("tagged_coroutine",),
             doc={"template": "3-node chain; modes incl. coroutine nodes tagged non_async / process",
                  "symbolic": ["mode per node (216 assignments)", "caller input"], "functions": F, "assumptions": A,
                  "bounds": "3 nodes, pools registered, durations 0"}))
