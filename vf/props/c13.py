"""C13 — nothing is left running after a run ends or is cancelled."""
from __future__ import annotations

from typing import Any, Dict, Optional, Tuple

from .. import catalogue as C
from .. import verdicts as V
from ..harness import Cfg, Obs, run_engine, set_pools
from ..jobs import Job, register
from ..refsem import Ref, RefResult
from ..spec import Behaviour, Spec
from .common import doc, goals_of


def make(spec_factory: Any, n_cancel: int, events: bool = False, store: bool = False,
         beh_kw: Optional[Dict[str, Any]] = None, slow: bool = False) -> Any:
    def mk() -> Any:
        spec = spec_factory()
        set_pools()

        def h(sym: Any) -> Tuple[str, Dict[str, Any]]:
            beh = Behaviour(sym, spec, **(beh_kw or {}))
            cfg = Cfg(events=events, store=store, drain=True, rev_taskset=sym.bool("rev_taskset"),
                      cancel_at=sym.int("cancel_at", 0, n_cancel),
                      collab_dur=sym.int("collab_dur", 0, 3) if slow else 0)
            obs = run_engine(spec, beh, cfg)
            label = V.hang(obs)
            if label is None:
                if obs.cancel_delivered is not None and obs.kind != "cancelled":
                    label = "cancel_surfaced_as:%s:%s" % (
                        obs.kind, type(obs.exc).__name__ if obs.exc is not None else
                        (type(obs.error).__name__ if obs.error is not None else "value"))
                elif obs.kind == "raised" and not isinstance(obs.exc, BaseException):
                    label = "raised"
                elif obs.drain != "quiescent":
                    label = "loop_not_quiescent:%s" % obs.drain
                elif obs.pending_tasks:
                    label = "tasks_left_pending:%s" % ",".join(obs.pending_tasks)
                elif obs.rc.late:
                    label = "activity_after_run_ended:%s:%s" % obs.rc.late[0]
            goals = []
            if obs.cancel_delivered is not None:
                goals.append("cancel_delivered")
                if any(k == "start" for _, k, _, _ in obs.rc.log):
                    running = {}
                    for seq, k, node, p in obs.rc.log:
                        if k == "start":
                            running[node] = running.get(node, 0) + 1
                        if k == "end":
                            running[node] = running.get(node, 0) - 1
                    if any(v > 0 for v in running.values()):
                        goals.append("cancel_while_node_in_flight")
            else:
                goals.append("no_cancel")
                if obs.kind == "done" and obs.error is not None:
                    goals.append("ended_with_error")
            info = {"digest": obs.digest() + [obs.cancel_delivered, obs.drain], "goals": goals,
                    "summary": {"engine": obs.kind, "cancelled_at_iteration": obs.cancel_delivered,
                                "iterations": obs.iterations, "order": [i.node for i in obs.rc.invs]}}
            return (label or "ok"), info

        return h

    return mk


SYMS = ["loop iteration at which the caller cancels the run (or never)", "durations", "outcome kinds of fallible nodes",
        "task-set order", "caller input"]
REV = [{"rev_taskset": 0}, {"rev_taskset": 1}]
for name, f, n, kw in [
    ("chain", C.chain, 30, {}),
    ("rhombus", lambda: C.rhombus(True), 30, {}),
    ("mixed_modes", C.mixed_modes, 30, {}),
    ("switch_basic", lambda: C.switch_basic(False, True), 34, {}),
    ("oneof_basic", C.oneof_basic, 34, {}),
    ("rec_simple", lambda: C.rec_simple(1, True), 44, {}),
    ("retry_chain", lambda: C.retry_chain(2, False), 30, {}),
]:
    register(Job("C13", name, make(f, n, **kw), tier="quick", budget_s=400, parts=REV,
                 goals=("cancel_delivered", "no_cancel", "cancel_while_node_in_flight"),
                 doc=doc(name, SYMS, {"bounds": "cancel_at in [0,%d] loop iterations (covers every step of the run: runs "
                                               "finish earlier on every path, later values = 'never cancelled'); "
                                               "drain cap 200 iterations" % n})))
register(Job("C13", "chain_events_store", make(C.chain, 44, events=True, store=True), tier="quick", budget_s=400, parts=REV,
             goals=("cancel_delivered", "no_cancel"), doc=doc("chain+events+store", SYMS)))
register(Job("C13", "oneof_depth2", make(lambda: C.oneof_depth(2), 40), tier="thorough", budget_s=1200, parts=REV,
             goals=("cancel_delivered", "no_cancel"), doc=doc("oneof_depth2", SYMS)))
register(Job("C13", "rec_inner_start", make(lambda: C.rec_inner_start(1), 50), tier="thorough", budget_s=1200, parts=REV,
             goals=("cancel_delivered", "no_cancel"), doc=doc("rec_inner_start", SYMS)))

# event callbacks / artifact saves that suspend (symbolic duration 0..3): a cancellation or a sibling failure may land while
# an engine task is inside a collaborator call
register(Job("C13", "slow_collab_chain", make(C.chain, 60, events=True, store=True, slow=True, beh_kw={"sym_dur": False}),
             tier="quick", budget_s=400, parts=[{"rev_taskset": r, "collab_dur": d} for r in range(2) for d in range(4)],
             goals=("cancel_delivered", "no_cancel"),
             doc=doc("chain + slow events + slow store", SYMS + ["duration of every collaborator call in [0,3]"])))
register(Job("C13", "slow_collab_rhombus_fail", make(lambda: C.rhombus(True), 60, events=True, store=False, slow=True,
                                                     beh_kw={"dur_nodes": {"B"}}),
             tier="quick", budget_s=400, parts=[{"rev_taskset": r, "collab_dur": d} for r in range(2) for d in range(4)],
             goals=("cancel_delivered", "no_cancel"),
             doc=doc("rhombus (B, C may fail) + slow events", SYMS + ["duration of every event callback in [0,3]"])))

# one node reached by two sub-DAGs of the same run (two tasks carry its name), and a recurrent driver re-created on every
# pass: a registry that assumes "one name, one task" loses the task that does the work, and the end of the run no longer
# reaches it
register(Job("C13", "switch_shared_case_events", make(C.switch_shared_case, 50, events=True, beh_kw={"dur_nodes": {"X"}}),
             tier="quick", budget_s=400, parts=REV, goals=("cancel_delivered", "no_cancel", "cancel_while_node_in_flight"),
             doc=doc("switch_shared_case + events", SYMS)))
register(Job("C13", "rec_simple2_events_store", make(lambda: C.rec_simple(2, True), 70, events=True, store=True, slow=True,
                                                     beh_kw={"sym_dur": False}),
             tier="quick", budget_s=400, parts=[{"rev_taskset": r, "collab_dur": d} for r in range(2) for d in range(3)],
             goals=("cancel_delivered", "no_cancel"),
             doc=doc("rec_simple (two iterations) + slow events + slow store", SYMS + ["duration of every collaborator call in [0,2]"])))
