"""C02, C03, C04, C05, C09, C10, C11, C14, C19 — engine harness E with property-specific verdicts."""
from __future__ import annotations

from typing import Any, Callable, Dict, List, Optional, Tuple

from .. import catalogue as C
from .. import verdicts as V
from ..harness import Cfg, Obs
from ..jobs import Job, register
from ..refsem import Fail, RefResult, Val
from ..spec import BASE_EXC, E1, E2, OK, RET_NONE, RET_ZERO, In, Node, OneOf, Rec, Spec, Sw
from .common import auto_parts, doc, engine_harness

SYMS = ["caller input x", "duration of every node", "outcome kind of fallible nodes", "switch labels",
        "recurrent want", "task-set order"]


def _chain(*fs: Callable[[Obs, RefResult], Optional[str]]) -> Callable[[Obs, RefResult, Any], Optional[str]]:
    def v(obs: Obs, ref: RefResult, sym: Any) -> Optional[str]:
        for f in fs:
            lab = f(obs, ref)
            if lab:
                return lab
        return None

    return v


def _reg(prop: str, name: str, f: Callable[[], Spec], verdict: Any, *, goals: Tuple[str, ...] = (),
         tier: str = "quick", judge_hang: bool = False, beh_kw: Optional[Dict[str, Any]] = None,
         cfg_fn: Any = None, budget: float = 300, parts: Any = None, extra_syms: Tuple[str, ...] = (),
         rev: bool = True) -> None:
    if parts is None:
        parts = auto_parts(f(), rev=rev)
    register(Job(prop, name, engine_harness(f, verdict, judge_hang=judge_hang, beh_kw=beh_kw, cfg_fn=cfg_fn, rev=rev),
                 tier=tier, budget_s=budget, goals=goals, parts=parts,
                 doc=doc(name, list(SYMS) + list(extra_syms))))


REV = [{"rev_taskset": 0}, {"rev_taskset": 1}]

# ------------------------------------------------------------------------------------ C02
NONE_KINDS = (OK, E1, RET_NONE, RET_ZERO)


def _nothing(obs: Obs, ref: RefResult, sym: Any) -> Optional[str]:
    return None


def _collab_cfg(n_ev: int, n_save: int) -> Any:
    def cfg(sym: Any) -> Cfg:
        return Cfg(events=True, store=True, ev_fail_at=sym.int("ev_fail_at", 0, n_ev),
                   save_fail_at=sym.int("save_fail_at", 0, n_save))

    return cfg


for name, f, goals in [
    ("switch_unknown", lambda: C.switch_basic(unknown=True, fall=True), ("label_none", "case:X")),
    ("switch_deep_unknown", lambda: C.switch_deep(unknown=True), ("label_none",)),
    ("switch_case_also_input", C.switch_case_also_input, ("case:X", "case:Y")),
    ("switch_shared_case", C.switch_shared_case, ()),
    ("oneof_none", lambda: C.oneof_basic(NONE_KINDS), ("oneof_fallback", "oneof_all_failed")),
    ("oneof_depth1", lambda: C.oneof_depth(1), ("oneof_fallback",)),
    ("oneof_depth2", lambda: C.oneof_depth(2), ("oneof_fallback",)),
    ("oneof_depth3", lambda: C.oneof_depth(3), ("oneof_fallback",)),
    ("oneof_nested", C.oneof_nested, ("oneof_fallback", "oneof_all_failed")),
    ("oneof_chained", C.oneof_chained, ("oneof_fallback",)),
    ("oneof_with_switch", C.oneof_with_switch, ("oneof_fallback",)),
    ("oneof_with_switch_deep", C.oneof_with_switch_deep, ("oneof_fallback",)),
    ("oneof_diamond", C.oneof_diamond, ("oneof_fallback",)),
    ("rec_simple", lambda: C.rec_simple(2, False, True), ("reiterated", "ref_fail_rec")),
    ("rec_two_scopes", C.rec_two_scopes, ("reiterated",)),
    ("rec_with_switch", lambda: C.rec_with_switch(1), ("reiterated",)),
    ("rec_in_oneof", C.rec_in_oneof, ("reiterated",)),
    ("retry_sibling", C.retry_sibling, ()),
]:
    _reg("C02", name, f, _nothing, goals=goals, judge_hang=True)
_reg("C02", "oneof_depth4", lambda: C.oneof_depth(4), _nothing, goals=("oneof_fallback",), judge_hang=True,
     tier="thorough", parts=REV, budget=900)
_reg("C02", "collab_fault_chain", C.chain, _nothing, judge_hang=True, cfg_fn=_collab_cfg(10, 4),
     extra_syms=("index of the event callback that raises", "index of the artifact save that raises"))
_reg("C02", "collab_fault_oneof", C.oneof_basic, _nothing, judge_hang=True, cfg_fn=_collab_cfg(12, 5),
     beh_kw={"sym_dur": False},
     extra_syms=("index of the event callback that raises", "index of the artifact save that raises"))
_reg("C02", "collab_fault_rhombus", lambda: C.rhombus(False), _nothing, judge_hang=True, cfg_fn=_collab_cfg(12, 5),
     tier="thorough", budget=900,
     extra_syms=("index of the event callback that raises", "index of the artifact save that raises"))

# ------------------------------------------------------------------------------------ C03
def _c03(obs: Obs, ref: RefResult, sym: Any) -> Optional[str]:
    return V.args(obs, ref) or V.input_untouched(obs)


for name, f, goals in [
    ("rhombus", lambda: C.rhombus(True), ()),
    ("fan", C.fan, ()),
    ("mixed_modes", C.mixed_modes, ()),
    ("switch_shared_case", C.switch_shared_case, ()),
    ("switch_nested", C.switch_nested, ()),
    ("oneof_with_switch", C.oneof_with_switch, ("oneof_fallback",)),
    ("oneof_chained", C.oneof_chained, ("oneof_fallback",)),
    ("rec_simple", lambda: C.rec_simple(2, True), ("reiterated", "default_used")),
    ("rec_inner_start", lambda: C.rec_inner_start(1), ("reiterated",)),
    ("rec_two_scopes", C.rec_two_scopes, ("reiterated",)),
    ("rec_outside_reader", C.rec_outside_reader, ("reiterated",)),
    ("rec_with_switch", lambda: C.rec_with_switch(1), ("reiterated",)),
    ("retry_chain", C.retry_chain, ("default_used",)),
]:
    _reg("C03", name, f, _c03, goals=goals)

# ------------------------------------------------------------------------------------ C04
def _c04(obs: Obs, ref: RefResult, sym: Any) -> Optional[str]:
    return V.once(obs, ref)


def shared_scopes() -> Spec:
    """A node shared between the main pipeline, a switch sub-pipeline and a one-of sub-pipeline."""
    return Spec("shared_scopes", [
        Node("A"),
        Node("H", (("a", In("A")),)),
        Node("S", (("a", In("A")),), labels=("l1", "l2")),
        Node("X", (("h", In("H")),)), Node("Y", (("h", In("H")),)),
        Node("C1", (("h", In("H")),), kinds=(OK, E1)), Node("C2", (("h", In("H")),)),
        Node("O", (("v", Sw("S", (("l1", "X"), ("l2", "Y")), "sw")), ("w", OneOf(("C1", "C2"))), ("h", In("H")))),
    ], "A", "O")


for name, f, goals in [
    ("rhombus", lambda: C.rhombus(False), ()),
    ("fan", C.fan, ()),
    ("switch_shared_case", C.switch_shared_case, ()),
    ("shared_scopes", shared_scopes, ("oneof_fallback", "case:X", "case:Y")),
    ("oneof_shared_dep", C.oneof_shared_dep, ()),
    ("oneof_chained", C.oneof_chained, ("oneof_fallback",)),
    ("rec_inner_start", lambda: C.rec_inner_start(1), ("reiterated",)),
    ("rec_nested", C.rec_nested, ("reiterated",)),
    ("rec_with_switch", lambda: C.rec_with_switch(1), ("reiterated",)),
    ("retry_sibling", C.retry_sibling, ()),
]:
    _reg("C04", name, f, _c04, goals=goals)

# ------------------------------------------------------------------------------------ C05
def _c05(obs: Obs, ref: RefResult, sym: Any) -> Optional[str]:
    return V.faithful(obs, ref)


def three_fail() -> Spec:
    return Spec("three_fail", [
        Node("A"),
        Node("B", (("a", In("A")),), kinds=(OK, E1)),
        Node("C", (("a", In("A")),), kinds=(OK, E2)),
        Node("D", (("a", In("A")),), kinds=(OK, E1)),
        Node("O", (("b", In("B")), ("c", In("C")), ("d", In("D")))),
    ], "A", "O")


for name, f, goals in [
    ("rhombus", lambda: C.rhombus(True), ("ref_fail", "ref_value")),
    ("three_fail", three_fail, ("ref_fail",)),
    ("oneof_basic", C.oneof_basic, ("oneof_all_failed", "oneof_fallback")),
    ("oneof_depth2", lambda: C.oneof_depth(2), ("oneof_fallback",)),
    ("oneof_sibling", C.oneof_sibling, ("oneof_fallback",)),
    ("oneof_nested", C.oneof_nested, ("oneof_all_failed",)),
    ("oneof_shared_dep", C.oneof_shared_dep, ("ref_fail",)),
    ("oneof_diamond", C.oneof_diamond, ("oneof_fallback", "oneof_all_failed")),
    ("switch_fall", lambda: C.switch_basic(False, True), ("ref_fail",)),
    ("rec_simple", lambda: C.rec_simple(1, False, True), ("ref_fail_rec",)),
    ("rec_in_oneof", C.rec_in_oneof, ()),
    ("retry_sibling", C.retry_sibling, ("ref_fail",)),
]:
    _reg("C05", name, f, _c05, goals=goals)

# ------------------------------------------------------------------------------------ C09
def _c09(obs: Obs, ref: RefResult, sym: Any) -> Optional[str]:
    lab = V.hang(obs)
    if lab:
        return lab
    lab = V.once(obs, ref)
    if lab and (lab.startswith("executed_undemanded") or lab.startswith("executed_more")):
        return lab
    spec = obs.rc.spec
    consumers = {n.name for n in spec.nodes if any(isinstance(m, Sw) for _, m in n.params)}
    lab = V.args(obs, ref, consumers)
    if lab:
        return lab
    if any(c is None for c in ref.selected.values()) and isinstance(ref.outcome, Fail):
        if obs.kind != "done" or obs.error is None:
            return "unknown_label_not_an_error_result:%s" % obs.kind
    return V.outcome(obs, ref)


for name, f, goals in [
    ("switch_basic", lambda: C.switch_basic(False, True), ("case:X", "case:Y")),
    ("switch_unknown", lambda: C.switch_basic(True, False), ("label_none",)),
    ("switch_deep", lambda: C.switch_deep(False), ("case:X", "case:Y")),
    ("switch_nested", C.switch_nested, ("case:P", "case:Q", "case:Y")),
    ("switch_shared_case", C.switch_shared_case, ()),
    ("switch_case_also_input", C.switch_case_also_input, ("case:X", "case:Y")),
    ("oneof_with_switch", C.oneof_with_switch, ()),
    ("rec_with_switch", lambda: C.rec_with_switch(1), ("reiterated",)),
]:
    _reg("C09", name, f, _c09, goals=goals)

# ------------------------------------------------------------------------------------ C10
def _c10(obs: Obs, ref: RefResult, sym: Any) -> Optional[str]:
    lab = V.hang(obs)
    if lab:
        return lab
    lab = V.once(obs, ref)
    if lab and (lab.startswith("executed_undemanded") or lab.startswith("executed_more")):
        return lab
    spec = obs.rc.spec
    consumers = {n.name for n in spec.nodes if any(isinstance(m, OneOf) for _, m in n.params)}
    lab = V.args(obs, ref, consumers) or V.oneof_order(obs, ref)
    if lab:
        return lab
    return V.outcome(obs, ref) or V.faithful(obs, ref)


for name, f, goals in [
    ("oneof_basic", C.oneof_basic, ("oneof_first", "oneof_fallback", "oneof_all_failed")),
    ("oneof_none", lambda: C.oneof_basic(NONE_KINDS), ("oneof_fallback",)),
    ("oneof_three", C.oneof_three, ("oneof_fallback", "oneof_all_failed")),
    ("oneof_depth1", lambda: C.oneof_depth(1), ("oneof_fallback",)),
    ("oneof_depth2", lambda: C.oneof_depth(2), ("oneof_fallback",)),
    ("oneof_depth3", lambda: C.oneof_depth(3), ("oneof_fallback",)),
    ("oneof_nested", C.oneof_nested, ("oneof_fallback", "oneof_all_failed")),
    ("oneof_sibling", C.oneof_sibling, ("oneof_fallback",)),
    ("oneof_chained", C.oneof_chained, ("oneof_fallback",)),
    ("oneof_with_switch", C.oneof_with_switch, ("oneof_fallback",)),
    ("oneof_with_switch_deep", C.oneof_with_switch_deep, ("oneof_fallback",)),
    ("oneof_shared_dep", C.oneof_shared_dep, ()),
    ("oneof_diamond", C.oneof_diamond, ("oneof_fallback",)),
]:
    _reg("C10", name, f, _c10, goals=goals)

# ------------------------------------------------------------------------------------ C11
def _c11(obs: Obs, ref: RefResult, sym: Any) -> Optional[str]:
    lab = V.once(obs, ref) or V.args(obs, ref)
    if lab:
        return lab
    return V.outcome(obs, ref)


for name, f, goals in [
    ("rec_simple", lambda: C.rec_simple(2, False, True), ("reiterated", "epochs:2", "ref_fail_rec")),
    ("rec_simple_default", lambda: C.rec_simple(2, True), ("reiterated", "default_used")),
    ("rec_inner_start", lambda: C.rec_inner_start(1), ("reiterated",)),
    ("rec_inner_start_default", lambda: C.rec_inner_start(1, True), ("default_used",)),
    ("rec_two_scopes", C.rec_two_scopes, ("reiterated",)),
    ("rec_with_switch", lambda: C.rec_with_switch(1), ("reiterated",)),
    ("rec_with_oneof", C.rec_with_oneof, ("reiterated",)),
    ("rec_in_oneof", C.rec_in_oneof, ("reiterated",)),
    ("rec_nested", C.rec_nested, ("reiterated",)),
]:
    _reg("C11", name, f, _c11, goals=goals)

# ------------------------------------------------------------------------------------ C14
def _ev_cfg(sym: Any) -> Cfg:
    return Cfg(events=True)


def _c14(obs: Obs, ref: RefResult, sym: Any) -> Optional[str]:
    return V.events(obs, ref)


for name, f, goals in [
    ("chain", C.chain, ()),
    ("rhombus", lambda: C.rhombus(True), ("ref_fail", "ref_value")),
    ("switch_basic", lambda: C.switch_basic(False, True), ()),
    ("oneof_basic", C.oneof_basic, ("oneof_fallback", "oneof_all_failed")),
    ("oneof_depth2", lambda: C.oneof_depth(2), ("oneof_fallback",)),
    ("rec_simple", lambda: C.rec_simple(1, True, True), ("reiterated", "default_used")),
    ("retry_sibling", C.retry_sibling, ()),
    ("retry_chain", C.retry_chain, ("default_used",)),
]:
    _reg("C14", name, f, _c14, goals=goals, cfg_fn=_ev_cfg)

# ------------------------------------------------------------------------------------ C19
def _store_cfg(sym: Any) -> Cfg:
    return Cfg(store=True, write_once=True)


def _c19(obs: Obs, ref: RefResult, sym: Any) -> Optional[str]:
    return V.saves(obs, ref)


for name, f, goals in [
    ("chain", C.chain, ()),
    ("rhombus", lambda: C.rhombus(False), ()),
    ("switch_shared_case", C.switch_shared_case, ()),
    ("shared_scopes", shared_scopes, ("oneof_fallback",)),
    ("oneof_basic", C.oneof_basic, ("oneof_fallback",)),
    ("rec_simple", lambda: C.rec_simple(1, False), ("reiterated",)),
    ("rec_simple_default", lambda: C.rec_simple(1, True), ("default_used",)),
    ("rec_inner_start", lambda: C.rec_inner_start(1), ("reiterated",)),
    ("retry_chain", C.retry_chain, ("default_used",)),
]:
    _reg("C19", name, f, _c19, goals=goals, cfg_fn=_store_cfg)
