"""C02, C03, C04, C05, C09, C10, C11, C14, C19 — engine harness E with property-specific verdicts."""
from __future__ import annotations

from typing import Any, Callable, Dict, List, Optional, Tuple

from .. import catalogue as C
from .. import verdicts as V
from ..harness import Cfg, Obs
from ..jobs import Job, register
from ..refsem import Fail, RefResult, Val
from typing import List

from ..spec import BASE_EXC, E1, E2, OK, RET_NONE, RET_ZERO, In, Node, OneOf, Rec, Spec, Sw
from .common import auto_parts, doc, engine_harness

SYMS = ["caller input x", "duration of every node", "outcome kind of fallible nodes", "switch labels",
        "recurrent want", "task-set order"]


def _chain(*fs: Callable[[Obs, RefResult], Optional[str]]) -> Callable[[Obs, RefResult, Any], Optional[str]]:
    def v(obs: Obs, ref: RefResult, sym: Any) -> Optional[str]:
        for f in fs:
            lab = f(obs, ref)
            if lab:
                return lab
        return None

    return v


def _reg(prop: str, name: str, f: Callable[[], Spec], verdict: Any, *, goals: Tuple[str, ...] = (),
         tier: str = "quick", judge_hang: bool = False, beh_kw: Optional[Dict[str, Any]] = None,
         cfg_fn: Any = None, budget: float = 300, parts: Any = None, extra_syms: Tuple[str, ...] = (),
         rev: bool = True, param_orders: bool = False) -> None:
    if parts is None:
        parts = auto_parts(f(), rev=rev)
        if param_orders:
            parts = [dict(p, reversed_param_order=o) for p in parts for o in (0, 1)]
    register(Job(prop, name, engine_harness(f, verdict, judge_hang=judge_hang, beh_kw=beh_kw, cfg_fn=cfg_fn, rev=rev,
                                            param_orders=param_orders),
                 tier=tier, budget_s=budget, goals=goals, parts=parts,
                 doc=doc(name, list(SYMS) + list(extra_syms))))


REV = [{"rev_taskset": 0}, {"rev_taskset": 1}]

# ------------------------------------------------------------------------------------ C02
NONE_KINDS = (OK, E1, RET_NONE, RET_ZERO)


def _nothing(obs: Obs, ref: RefResult, sym: Any) -> Optional[str]:
    return None


def _collab_cfg(n_ev: int, n_save: int) -> Any:
    def cfg(sym: Any) -> Cfg:
        return Cfg(events=True, store=True, ev_fail_at=sym.int("ev_fail_at", 0, n_ev),
                   save_fail_at=sym.int("save_fail_at", 0, n_save))

    return cfg


for name, f, goals in [
    ("switch_unknown", lambda: C.switch_basic(unknown=True, fall=True), ("label_none", "case:X")),
    ("switch_deep_unknown", lambda: C.switch_deep(unknown=True), ("label_none",)),
    ("switch_case_also_input", C.switch_case_also_input, ("case:X", "case:Y")),
    ("switch_shared_case", C.switch_shared_case, ()),
    ("oneof_none", lambda: C.oneof_basic(NONE_KINDS), ("oneof_fallback", "oneof_all_failed")),
    ("oneof_depth1", lambda: C.oneof_depth(1), ("oneof_fallback",)),
    ("oneof_depth2", lambda: C.oneof_depth(2), ("oneof_fallback",)),
    ("oneof_depth3", lambda: C.oneof_depth(3), ("oneof_fallback",)),
    ("oneof_nested", C.oneof_nested, ("oneof_fallback", "oneof_all_failed")),
    ("oneof_chained", C.oneof_chained, ("oneof_fallback",)),
    ("oneof_with_switch", C.oneof_with_switch, ("oneof_fallback",)),
    ("oneof_with_switch_deep", C.oneof_with_switch_deep, ("oneof_fallback",)),
    ("oneof_diamond", C.oneof_diamond, ("oneof_fallback",)),
    ("oneof_shared_inflight", C.oneof_shared_inflight, ("oneof_fallback",)),
    ("oneof_diamond_shared", C.oneof_diamond_shared, ("oneof_fallback",)),
    ("oneof_reached_twice", C.oneof_reached_twice, ("oneof_fallback",)),
    ("retry_attempts_zero", C.retry_attempts_zero, ()),
    ("rec_simple", lambda: C.rec_simple(2, False, True), ("reiterated", "ref_fail_rec")),
    ("rec_two_scopes", C.rec_two_scopes, ("reiterated",)),
    ("rec_with_switch", lambda: C.rec_with_switch(1), ("reiterated",)),
    ("rec_in_oneof", C.rec_in_oneof, ("reiterated",)),
    ("retry_sibling", C.retry_sibling, ()),
]:
    _reg("C02", name, f, _nothing, goals=goals, judge_hang=True)
_reg("C02", "oneof_depth4", lambda: C.oneof_depth(4), _nothing, goals=("oneof_fallback",), judge_hang=True,
     tier="thorough", parts=REV, budget=900)
_reg("C02", "collab_fault_chain", C.chain, _nothing, judge_hang=True, cfg_fn=_collab_cfg(10, 4),
     extra_syms=("index of the event callback that raises", "index of the artifact save that raises"))
_reg("C02", "collab_fault_oneof", C.oneof_basic, _nothing, judge_hang=True, cfg_fn=_collab_cfg(12, 5),
     beh_kw={"sym_dur": False},
     extra_syms=("index of the event callback that raises", "index of the artifact save that raises"))
_reg("C02", "collab_fault_rhombus", lambda: C.rhombus(False), _nothing, judge_hang=True, cfg_fn=_collab_cfg(12, 5),
     tier="thorough", budget=900,
     extra_syms=("index of the event callback that raises", "index of the artifact save that raises"))

# ------------------------------------------------------------------------------------ C03
def _c03(obs: Obs, ref: RefResult, sym: Any) -> Any:
    return [x for x in (V.args(obs, ref), V.input_untouched(obs)) if x]


for name, f, goals in [
    ("rhombus", lambda: C.rhombus(True), ()),
    ("fan", C.fan, ()),
    ("mixed_modes", C.mixed_modes, ()),
    ("switch_shared_case", C.switch_shared_case, ()),
    ("switch_nested", C.switch_nested, ()),
    ("oneof_with_switch", C.oneof_with_switch, ("oneof_fallback",)),
    ("oneof_chained", C.oneof_chained, ("oneof_fallback",)),
    ("rec_simple", lambda: C.rec_simple(2, True), ("reiterated", "default_used")),
    ("rec_inner_start", lambda: C.rec_inner_start(1), ("reiterated",)),
    ("rec_two_scopes", C.rec_two_scopes, ("reiterated",)),
    ("rec_outside_reader", C.rec_outside_reader, ("reiterated",)),
    ("rec_with_switch", lambda: C.rec_with_switch(1), ("reiterated",)),
    ("retry_chain", C.retry_chain, ("default_used",)),
]:
    _reg("C03", name, f, _c03, goals=goals)

# ------------------------------------------------------------------------------------ C04
def _c04(obs: Obs, ref: RefResult, sym: Any) -> Any:
    # an unbounded number of executions shows as the loop's iteration cap (Livelock)
    # "all consumers of the node observe that single result": the arguments every consumer received (V.args)
    return [x for x in (("livelock" if obs.kind == "livelock" else None), V.once(obs, ref), V.args(obs, ref)) if x]


def shared_scopes() -> Spec:
    """A node shared between the main pipeline, a switch sub-pipeline and a one-of sub-pipeline."""
    return Spec("shared_scopes", [
        Node("A"),
        Node("H", (("a", In("A")),)),
        Node("S", (("a", In("A")),), labels=("l1", "l2")),
        Node("X", (("h", In("H")),)), Node("Y", (("h", In("H")),)),
        Node("C1", (("h", In("H")),), kinds=(OK, E1)), Node("C2", (("h", In("H")),)),
        Node("O", (("v", Sw("S", (("l1", "X"), ("l2", "Y")), "sw")), ("w", OneOf(("C1", "C2"))), ("h", In("H")))),
    ], "A", "O")


for name, f, goals in [
    ("rhombus", lambda: C.rhombus(False), ()),
    ("fan", C.fan, ()),
    ("switch_shared_case", C.switch_shared_case, ()),
    ("shared_scopes", shared_scopes, ("oneof_fallback", "case:X", "case:Y")),
    ("oneof_shared_dep", C.oneof_shared_dep, ()),
    ("oneof_chained", C.oneof_chained, ("oneof_fallback",)),
    ("rec_inner_start", lambda: C.rec_inner_start(1), ("reiterated",)),
    ("rec_side_input", C.rec_side_input, ("reiterated",)),
    ("rec_nested", C.rec_nested, ("reiterated",)),
    ("rec_with_switch", lambda: C.rec_with_switch(1), ("reiterated",)),
    ("retry_sibling", C.retry_sibling, ()),
    ("retry_attempts_zero", C.retry_attempts_zero, ()),
    ("oneof_reached_twice", C.oneof_reached_twice, ("oneof_fallback",)),
    ("oneof_reached_via_nested", C.oneof_reached_via_nested, ("oneof_fallback",)),
]:
    _reg("C04", name, f, _c04, goals=goals)

# ------------------------------------------------------------------------------------ C05
def _c05(obs: Obs, ref: RefResult, sym: Any) -> Optional[str]:
    return V.faithful(obs, ref)


def three_fail() -> Spec:
    return Spec("three_fail", [
        Node("A"),
        Node("B", (("a", In("A")),), kinds=(OK, E1)),
        Node("C", (("a", In("A")),), kinds=(OK, E2)),
        Node("D", (("a", In("A")),), kinds=(OK, E1)),
        Node("O", (("b", In("B")), ("c", In("C")), ("d", In("D")))),
    ], "A", "O")


for name, f, goals in [
    ("rhombus", lambda: C.rhombus(True), ("ref_fail", "ref_value")),
    ("three_fail", three_fail, ("ref_fail",)),
    ("oneof_basic", C.oneof_basic, ("oneof_all_failed", "oneof_fallback")),
    ("oneof_depth2", lambda: C.oneof_depth(2), ("oneof_fallback",)),
    ("oneof_sibling", C.oneof_sibling, ("oneof_fallback",)),
    ("oneof_nested", C.oneof_nested, ("oneof_all_failed",)),
    ("oneof_shared_dep", C.oneof_shared_dep, ("ref_fail",)),
    ("oneof_diamond", C.oneof_diamond, ("oneof_fallback", "oneof_all_failed")),
    ("oneof_shared_inflight", C.oneof_shared_inflight, ("oneof_fallback",)),
    ("oneof_with_switch", C.oneof_with_switch, ("oneof_fallback",)),
    ("switch_fall", lambda: C.switch_basic(False, True), ("ref_fail",)),
    ("rec_simple", lambda: C.rec_simple(1, False, True), ("ref_fail_rec",)),
    ("rec_in_oneof", C.rec_in_oneof, ()),
    ("retry_sibling", C.retry_sibling, ("ref_fail",)),
    ("retry_sibling_default", lambda: C.retry_sibling(3, 2, True), ("default_used",)),
]:
    _reg("C05", name, f, _c05, goals=goals)

# ------------------------------------------------------------------------------------ C09
def _c09(obs: Obs, ref: RefResult, sym: Any) -> Any:
    out = []
    if V.hang(obs):
        return [V.hang(obs)]
    lab = V.once(obs, ref)
    if lab and (lab.startswith("executed_undemanded") or lab.startswith("executed_more")):
        out.append(lab)
    spec = obs.rc.spec
    consumers = {n.name for n in spec.nodes if any(isinstance(m, Sw) for _, m in n.params)}
    out.append(V.args(obs, ref, consumers))
    if any(c is None for c in ref.selected.values()) and isinstance(ref.outcome, Fail):
        if obs.kind != "done" or obs.error is None:
            out.append("unknown_label_not_an_error_result:%s" % obs.kind)
    out.append(V.outcome(obs, ref))
    return [x for x in out if x]


for name, f, goals in [
    ("switch_basic", lambda: C.switch_basic(False, True), ("case:X", "case:Y")),
    ("switch_unknown", lambda: C.switch_basic(True, False), ("label_none",)),
    ("switch_deep", lambda: C.switch_deep(False), ("case:X", "case:Y")),
    ("switch_nested", C.switch_nested, ("case:P", "case:Q", "case:Y")),
    ("switch_shared_case", C.switch_shared_case, ()),
    ("switch_case_also_input", C.switch_case_also_input, ("case:X", "case:Y")),
    ("oneof_with_switch", C.oneof_with_switch, ()),
    ("rec_with_switch", lambda: C.rec_with_switch(1), ("reiterated",)),
]:
    _reg("C09", name, f, _c09, goals=goals)

# ------------------------------------------------------------------------------------ C10
def _c10(obs: Obs, ref: RefResult, sym: Any) -> Any:
    if V.hang(obs):
        return [V.hang(obs)]
    out = []
    lab = V.once(obs, ref)
    if lab and (lab.startswith("executed_undemanded") or lab.startswith("executed_more")):
        out.append(lab)
    spec = obs.rc.spec
    consumers = {n.name for n in spec.nodes if any(isinstance(m, OneOf) for _, m in n.params)}
    out.append(V.args(obs, ref, consumers))
    out.append(V.oneof_order(obs, ref))
    out.append(V.outcome(obs, ref))
    out.append(V.faithful(obs, ref))
    return [x for x in out if x]


for name, f, goals in [
    ("oneof_basic", C.oneof_basic, ("oneof_first", "oneof_fallback", "oneof_all_failed")),
    ("oneof_none", lambda: C.oneof_basic(NONE_KINDS), ("oneof_fallback",)),
    ("oneof_three", C.oneof_three, ("oneof_fallback", "oneof_all_failed")),
    ("oneof_depth1", lambda: C.oneof_depth(1), ("oneof_fallback",)),
    ("oneof_depth2", lambda: C.oneof_depth(2), ("oneof_fallback",)),
    ("oneof_depth3", lambda: C.oneof_depth(3), ("oneof_fallback",)),
    ("oneof_nested", C.oneof_nested, ("oneof_fallback", "oneof_all_failed")),
    ("oneof_sibling", C.oneof_sibling, ("oneof_fallback",)),
    ("oneof_chained", C.oneof_chained, ("oneof_fallback",)),
    ("oneof_with_switch", C.oneof_with_switch, ("oneof_fallback",)),
    ("oneof_with_switch_deep", C.oneof_with_switch_deep, ("oneof_fallback",)),
    ("oneof_shared_dep", C.oneof_shared_dep, ()),
    ("oneof_diamond", C.oneof_diamond, ("oneof_fallback",)),
    ("oneof_shared_inflight", C.oneof_shared_inflight, ("oneof_fallback",)),
    ("oneof_diamond_shared", C.oneof_diamond_shared, ("oneof_fallback",)),
    ("oneof_reached_twice", C.oneof_reached_twice, ("oneof_fallback",)),
    ("oneof_reached_via_nested", C.oneof_reached_via_nested, ("oneof_fallback",)),
]:
    _reg("C10", name, f, _c10, goals=goals)

# ------------------------------------------------------------------------------------ C11
def _c11(obs: Obs, ref: RefResult, sym: Any) -> Any:
    return [x for x in (V.once(obs, ref), V.args(obs, ref), V.outcome(obs, ref)) if x]


for name, f, goals in [
    ("rec_simple", lambda: C.rec_simple(2, False, True), ("reiterated", "epochs:2", "ref_fail_rec")),
    ("rec_simple_default", lambda: C.rec_simple(2, True), ("reiterated", "default_used")),
    ("rec_inner_start", lambda: C.rec_inner_start(1), ("reiterated",)),
    ("rec_inner_start_default", lambda: C.rec_inner_start(1, True), ("default_used",)),
    ("rec_side_input", C.rec_side_input, ("reiterated",)),
    ("rec_two_scopes", C.rec_two_scopes, ("reiterated",)),
    ("rec_with_switch", lambda: C.rec_with_switch(1), ("reiterated",)),
    ("rec_with_oneof", C.rec_with_oneof, ("reiterated",)),
    ("rec_in_oneof", C.rec_in_oneof, ("reiterated",)),
    ("rec_nested", C.rec_nested, ("reiterated",)),
]:
    _reg("C11", name, f, _c11, goals=goals)

# ------------------------------------------------------------------------------------ C14
def _ev_cfg(sym: Any) -> Cfg:
    return Cfg(events=True)


def _c14(obs: Obs, ref: RefResult, sym: Any) -> Optional[str]:
    return V.events(obs, ref)


for name, f, goals in [
    ("chain", C.chain, ()),
    ("rhombus", lambda: C.rhombus(True), ("ref_fail", "ref_value")),
    ("switch_basic", lambda: C.switch_basic(False, True), ()),
    ("oneof_basic", C.oneof_basic, ("oneof_fallback", "oneof_all_failed")),
    ("oneof_depth2", lambda: C.oneof_depth(2), ("oneof_fallback",)),
    ("rec_simple", lambda: C.rec_simple(1, True, True), ("reiterated", "default_used")),
    ("retry_sibling", C.retry_sibling, ()),
    ("retry_chain", C.retry_chain, ("default_used",)),
]:
    _reg("C14", name, f, _c14, goals=goals, cfg_fn=_ev_cfg)

# ------------------------------------------------------------------------------------ C19
def _store_cfg(sym: Any) -> Cfg:
    return Cfg(store=True, write_once=True)


def _c19(obs: Obs, ref: RefResult, sym: Any) -> Optional[str]:
    return V.saves(obs, ref)


def chain_none() -> Spec:
    """A node whose legitimate final value is None (or 0): it is executed, consumed, and must be saved."""
    return Spec("chain_none", [Node("A"), Node("B", (("a", In("A")),), kinds=(OK, RET_NONE, RET_ZERO)),
                               Node("C", (("b", In("B")),))], "A", "C")


for name, f, goals in [
    ("chain", C.chain, ()),
    ("chain_none", chain_none, ()),
    ("rhombus", lambda: C.rhombus(False), ()),
    ("switch_shared_case", C.switch_shared_case, ()),
    ("shared_scopes", shared_scopes, ("oneof_fallback",)),
    ("oneof_basic", C.oneof_basic, ("oneof_fallback",)),
    ("rec_simple", lambda: C.rec_simple(1, False), ("reiterated",)),
    ("rec_simple_default", lambda: C.rec_simple(1, True), ("default_used",)),
    ("rec_inner_start", lambda: C.rec_inner_start(1), ("reiterated",)),
    ("retry_chain", C.retry_chain, ("default_used",)),
]:
    _reg("C19", name, f, _c19, goals=goals, cfg_fn=_store_cfg)


# ------------------------------------------------------------------------------------ thorough tier
# (a) tick mode: the virtual clock advances by one per loop iteration, so a completion can land in the middle of an
#     engine cascade (finer than the quiescent model); durations bounded by D = 6 loop steps.
# (b) larger templates / deeper bounds.
def _tick_cfg(sym: Any) -> Cfg:
    return Cfg(tick=1)


def _tick_events_cfg(sym: Any) -> Cfg:
    return Cfg(tick=1, events=True)


def _tick_store_cfg(sym: Any) -> Cfg:
    return Cfg(tick=1, store=True, write_once=True)


TICK = {"dur_max": 6}
TICK_SYMS = ("tick mode: clock +1 per loop iteration, durations in [0,6] loop steps",)
for prop, verdict, hang_judged, cfgf, specs in [
    ("C01", None, False, _tick_cfg, [("rhombus", lambda: C.rhombus(True)), ("oneof_basic", C.oneof_basic),
                                     ("switch_shared_case", C.switch_shared_case)]),
    ("C02", _nothing, True, _tick_cfg, [("switch_shared_case", C.switch_shared_case), ("oneof_depth2", lambda: C.oneof_depth(2)),
                                        ("oneof_diamond", C.oneof_diamond), ("rec_simple", lambda: C.rec_simple(1, False, True)),
                                        ("two_chains", C.two_chains), ("rec_in_oneof_chain", C.rec_in_oneof_chain)]),
    ("C03", _c03, False, _tick_cfg, [("rhombus", lambda: C.rhombus(True)), ("rec_inner_start", lambda: C.rec_inner_start(1))]),
    ("C04", _c04, False, _tick_cfg, [("switch_shared_case", C.switch_shared_case), ("shared_scopes", shared_scopes)]),
    ("C05", _c05, False, _tick_cfg, [("oneof_diamond", C.oneof_diamond), ("three_fail", three_fail)]),
    ("C09", _c09, False, _tick_cfg, [("switch_shared_case", C.switch_shared_case), ("switch_case_also_input", C.switch_case_also_input)]),
    ("C10", _c10, False, _tick_cfg, [("oneof_depth2", lambda: C.oneof_depth(2)), ("oneof_diamond", C.oneof_diamond),
                                     ("rec_in_oneof_chain", C.rec_in_oneof_chain)]),
    ("C11", _c11, False, _tick_cfg, [("rec_inner_start", lambda: C.rec_inner_start(1)), ("rec_simple", lambda: C.rec_simple(2, True))]),
    ("C14", _c14, False, _tick_events_cfg, [("rhombus", lambda: C.rhombus(True)), ("oneof_basic", C.oneof_basic)]),
    ("C19", _c19, False, _tick_store_cfg, [("rhombus", lambda: C.rhombus(False)), ("switch_basic", lambda: C.switch_basic(False, False))]),
]:
    if verdict is None:
        from .c01 import verdict as _c01_verdict
        verdict = _c01_verdict
    for nm, f in specs:
        _reg(prop, "tick_" + nm, f, verdict, tier="thorough", judge_hang=hang_judged, beh_kw=dict(TICK), cfg_fn=cfgf,
             budget=2400, extra_syms=TICK_SYMS)

for prop, verdict, hang_judged, specs in [
    ("C02", _nothing, True, [("oneof_three_none", lambda: C.oneof_basic(NONE_KINDS)), ("rec_nested", C.rec_nested),
                             ("rec_with_oneof", C.rec_with_oneof)]),
    ("C10", _c10, False, [("oneof_depth4", lambda: C.oneof_depth(4))]),
    ("C11", _c11, False, [("rec_simple_iter3", lambda: C.rec_simple(3, True, True))]),
    ("C04", _c04, False, [("rec_simple_iter3", lambda: C.rec_simple(3, True, True))]),
]:
    for nm, f in specs:
        _reg(prop, "deep_" + nm, f, verdict, tier="thorough", judge_hang=hang_judged, budget=2400)


# ------------------------------------------------------------------------------------ suspending collaborators
# Event callbacks / artifact saves that really suspend (await asyncio.sleep(d), d symbolic; d = 0: no suspension):
# opens the await windows inside _execute_node / _run_node that the no-op collaborators of the test-suite never open.
def _slow(events: bool, store: bool, write_once: bool = False) -> Any:
    def cfg(sym: Any) -> Cfg:
        return Cfg(events=events, store=store, write_once=write_once, collab_dur=0,
                   ev_durs={"on_node_start": sym.int("ev_start_dur", 0, 86399),
                            "on_node_complete": sym.int("ev_complete_dur", 0, 86399)} if events else None,
                   save_dur=sym.int("save_dur", 0, 86399) if store else 0)

    return cfg


SLOW_SYMS = ("three independent symbolic durations: every on_node_start callback, every on_node_complete callback, "
             "every artifact save (0 = does not suspend)",)
SLOW_DUR = {"oneof_shared_dep": {"H"}, "oneof_diamond": {"F"}, "oneof_diamond_shared": {"F"}, "rec_simple": {"M"},
            "switch_shared_case": set(), "shared_scopes": set(), "rec_inner_start": {"Side"}, "rhombus": {"B"},
            "oneof_basic": {"C1"}, "retry_chain": set()}
for prop, verdict, hang_judged, cfgf, specs in [
    ("C01", None, False, _slow(True, True), [("oneof_shared_dep", C.oneof_shared_dep), ("oneof_diamond", C.oneof_diamond),
                                             ("oneof_diamond_shared", C.oneof_diamond_shared),
                                             ("rec_simple", lambda: C.rec_simple(1, True)),
                                             ("switch_shared_case", C.switch_shared_case)]),
    ("C02", _nothing, True, _slow(True, True), [("oneof_shared_dep", C.oneof_shared_dep), ("oneof_diamond", C.oneof_diamond),
                                                ("oneof_diamond_shared", C.oneof_diamond_shared),
                                                ("rec_simple", lambda: C.rec_simple(2, False, True)),
                                                ("switch_shared_case", C.switch_shared_case)]),
    ("C03", _c03, False, _slow(True, True), [("rec_inner_start", lambda: C.rec_inner_start(1)),
                                             ("switch_shared_case", C.switch_shared_case)]),
    ("C04", _c04, False, _slow(True, True), [("switch_shared_case", C.switch_shared_case), ("shared_scopes", shared_scopes),
                                             ("rec_simple", lambda: C.rec_simple(1, True))]),
    ("C05", _c05, False, _slow(True, True), [("oneof_diamond", C.oneof_diamond), ("rhombus", lambda: C.rhombus(True))]),
    ("C09", _c09, False, _slow(True, False), [("switch_shared_case", C.switch_shared_case)]),
    ("C10", _c10, False, _slow(True, True), [("oneof_shared_dep", C.oneof_shared_dep), ("oneof_diamond", C.oneof_diamond),
                                             ("oneof_diamond_shared", C.oneof_diamond_shared)]),
    ("C11", _c11, False, _slow(True, True), [("rec_inner_start", lambda: C.rec_inner_start(1)),
                                             ("rec_simple", lambda: C.rec_simple(2, True))]),
    ("C14", _c14, False, _slow(True, False), [("rhombus", lambda: C.rhombus(True)), ("oneof_basic", C.oneof_basic),
                                              ("switch_shared_case", C.switch_shared_case),
                                              ("retry_chain", C.retry_chain)]),
    ("C19", _c19, False, _slow(False, True, True), [("rhombus", lambda: C.rhombus(False)), ("oneof_basic", C.oneof_basic),
                                                    ("oneof_diamond_shared", C.oneof_diamond_shared),
                                                    ("retry_chain", C.retry_chain)]),
]:
    if verdict is None:
        from .c01 import verdict as _c01_verdict
        verdict = _c01_verdict
    for nm, f in specs:
        if nm == "rec_inner_start":
            cfgf = _slow(True, False)  # events only: four independent durations make this template too large for the quick tier
        _reg(prop, "slow_collab_" + nm, f, verdict, tier="quick", judge_hang=hang_judged, cfg_fn=cfgf, budget=400,
             beh_kw={"dur_nodes": SLOW_DUR[nm]}, extra_syms=SLOW_SYMS + ("node durations only for %s" % sorted(SLOW_DUR[nm]),))


# ------------------------------------------------------------------------------------ BaseException from a node body
# (neither retried, defaulted nor contained by a one-of: it propagates out of chart.run)
BX = (OK, E1, BASE_EXC)
for prop, verdict, hang_judged, specs in [
    ("C01", None, False, [("baseexc_rhombus", lambda: Spec("rhombus_bx", [
        Node("A"), Node("B", (("a", In("A")),), kinds=BX), Node("C", (("a", In("A")),)),
        Node("D", (("b", In("B")), ("c", In("C"))))], "A", "D"))]),
    ("C02", _nothing, True, [("baseexc_oneof", lambda: C.oneof_basic(BX))]),
    ("C05", _c05, False, [("baseexc_oneof", lambda: C.oneof_basic(BX)),
                          ("baseexc_rhombus", lambda: Spec("rhombus_bx", [
                              Node("A"), Node("B", (("a", In("A")),), kinds=BX), Node("C", (("a", In("A")),)),
                              Node("D", (("b", In("B")), ("c", In("C"))))], "A", "D"))]),
    ("C10", _c10, False, [("baseexc_oneof", lambda: C.oneof_basic(BX))]),
]:
    if verdict is None:
        from .c01 import verdict as _c01_verdict
        verdict = _c01_verdict
    for nm, f in specs:
        _reg(prop, nm, f, verdict, tier="quick", judge_hang=hang_judged, goals=("ref_fatal",), budget=300)


# ------------------------------------------------------------------------------------ plain-DAG family on the engine harness
# The program is symbolic (binding selectors, as in C06's family F_plain); outcome, arguments and execution counts are
# checked for every plain DAG of n = 4 nodes under every completion order.  Thorough tier.
def _family_harness(verdict: Any, n: int = 4) -> Any:
    def make() -> Any:
        from ..harness import run_engine, set_pools, untraced
        from ..refsem import Ref
        from ..spec import Behaviour
        from .common import goals_of, summary

        set_pools()

        def h(sym: Any) -> Any:
            binds: List[List[int]] = [[]]
            for i in range(1, n):
                p0 = sym.choice("bind%d_0" % i, i)
                p1 = sym.choice("bind%d_1" % i, i + 1) - 1
                if p1 == p0:
                    sym.assume(False)  # two parameters on one source: C15's recorded finding
                binds.append([p0] + ([p1] if p1 >= 0 else []))
            fall = sym.choice("fallible_node", n)  # which node may fail (0 = none)
            with untraced():
                nodes = [Node("N0")]
                for i in range(1, n):
                    nodes.append(Node("N%d" % i, tuple(("p%d" % j, In("N%d" % b)) for j, b in enumerate(binds[i])),
                                      kinds=(OK, E1) if i == fall else (OK,)))
                spec = Spec("plain%d" % n, nodes, "N0", "N%d" % (n - 1))
            beh = Behaviour(sym, spec, dur_nodes={"N%d" % i for i in range(1, n - 1)})
            obs = run_engine(spec, beh, Cfg(rev_taskset=sym.bool("rev_taskset")))
            ref = Ref(spec, beh).run()
            got = verdict(obs, ref, sym)
            labels = [x for x in (got if isinstance(got, (list, tuple)) else [got]) if x]
            if V.hang(obs):
                labels.insert(0, V.hang(obs))
            info = {"digest": obs.digest() + [binds, fall], "goals": goals_of(obs, ref), "summary": dict(summary(obs, ref), binds=binds)}
            return (labels or "ok"), info

        return h

    return make


from .c01 import verdict as _c01v  # noqa: E402

for prop, verdict in (("C01", _c01v), ("C03", _c03), ("C04", _c04), ("C05", _c05)):
    register(Job(prop, "family_plain_n4", _family_harness(verdict), tier="thorough", budget_s=2400,
                 parts=[{"bind2_0": a, "bind3_0": b, "fallible_node": c} for a in range(2) for b in range(3) for c in range(4)],
                 goals=("ref_value", "ref_fail"),
                 doc=doc("family F_plain: 4 nodes, every node has 1-2 Input parameters bound to earlier nodes by symbolic "
                         "selectors (36 programs); one symbolic node may fail", list(SYMS) + ["binding selectors", "which node is fallible"])))


# ------------------------------------------------------------------------------------ symbolic node functions / two inputs
# Every node's additive constant is a symbolic int in [-50, 50] (so the claim quantifies over a family of node functions,
# not one), and the caller passes two symbolic inputs.  Thorough tier.
def _two_inputs(f: Any) -> Any:
    def g() -> Spec:
        sp = f()
        return Spec(sp.name + "_xy", sp.nodes, sp.input, sp.output, input_keys=("x", "y"), dur_nodes=sp.dur_nodes)

    return g


for prop, verdict in (("C01", _c01v), ("C03", _c03)):
    for nm, f in [("rhombus", lambda: C.rhombus(True)), ("oneof_depth2", lambda: C.oneof_depth(2)),
                  ("switch_nested", C.switch_nested), ("rec_inner_start", lambda: C.rec_inner_start(1, True))]:
        _reg(prop, "symbase_xy_" + nm, _two_inputs(f), verdict, tier="thorough", budget=2400, beh_kw={"sym_base": True},
             extra_syms=("additive constant of every node in [-50,50]", "second caller input y"))


# ------------------------------------------------------------------------------------ templates added after the second,
# unseen round of seeded changes (DESIGN section 7)
ROUND2 = {
    "C01": [("oneof_with_switch", C.oneof_with_switch), ("switch_two_deciders", C.switch_two_deciders),
            ("switch_two_deciders_deep", lambda: C.switch_two_deciders(1)), ("switch_two_deciders_deep2", lambda: C.switch_two_deciders(2)), ("rec_none_data", C.rec_none_data),
            ("oneof_shared_failing_ancestor", C.oneof_shared_failing_ancestor)],
    "C02": [("switch_two_deciders", C.switch_two_deciders), ("switch_two_deciders_deep", lambda: C.switch_two_deciders(1)), ("switch_two_deciders_deep2", lambda: C.switch_two_deciders(2)),
            ("oneof_with_switch_unknown", C.oneof_with_switch_unknown), ("oneof_siblings_shared", C.oneof_siblings_shared),
            ("rec_retry_inside", C.rec_retry_inside)],
    "C03": [("oneof_shared_failing_ancestor", C.oneof_shared_failing_ancestor), ("switch_two_deciders", C.switch_two_deciders),
            ("rec_none_data", C.rec_none_data), ("switch_unnamed_same_decider", C.switch_unnamed_same_decider)],
    "C04": [("switch_two_deciders", C.switch_two_deciders), ("rec_retry_inside", C.rec_retry_inside)],
    "C05": [("oneof_with_switch_unknown", C.oneof_with_switch_unknown),
            ("oneof_shared_failing_ancestor", C.oneof_shared_failing_ancestor), ("oneof_siblings_shared", C.oneof_siblings_shared)],
    "C09": [("switch_two_deciders", C.switch_two_deciders), ("switch_two_deciders_deep", lambda: C.switch_two_deciders(1)), ("switch_two_deciders_deep2", lambda: C.switch_two_deciders(2)),
            ("switch_unnamed_same_decider", C.switch_unnamed_same_decider),
            ("oneof_with_switch_unknown", C.oneof_with_switch_unknown)],
    "C10": [("oneof_shared_failing_ancestor", C.oneof_shared_failing_ancestor), ("oneof_siblings_shared", C.oneof_siblings_shared),
            ("oneof_with_switch_unknown", C.oneof_with_switch_unknown)],
    "C11": [("rec_none_data", C.rec_none_data), ("rec_retry_inside", C.rec_retry_inside)],
}
_VERD = {"C01": _c01v, "C02": _nothing, "C03": _c03, "C04": _c04, "C05": _c05, "C09": _c09, "C10": _c10, "C11": _c11}
for prop, specs in ROUND2.items():
    for nm, f in specs:
        _reg(prop, "r2_" + nm, f, _VERD[prop], tier="quick", judge_hang=(prop in ("C02", "C09", "C10")), budget=400)


def chain_none_output() -> Spec:
    """The OUTPUT node itself may return None (or 0): a legitimate value of the run."""
    return Spec("chain_none_output", [Node("A"), Node("B", (("a", In("A")),)),
                                      Node("C", (("b", In("B")),), kinds=(OK, RET_NONE, RET_ZERO))], "A", "C")


for prop in ("C01", "C02", "C05", "C13"):
    if prop == "C13":
        continue
    _reg(prop, "r2_chain_none_output", chain_none_output, _VERD[prop], tier="quick", judge_hang=(prop == "C02"), budget=200)


# ------------------------------------------------------------------------------------ declaration order (thorough)
# The manager launches nodes in a topological order whose tie-breaks follow the builder's traversal, i.e. the order in which
# parameters are declared.  These jobs run templates with both the declared and the reversed parameter order of every node.
ORDER_T = [("switch_shared_case", C.switch_shared_case), ("switch_two_deciders", C.switch_two_deciders),
           ("switch_two_deciders_deep", lambda: C.switch_two_deciders(1)), ("switch_case_also_input", C.switch_case_also_input),
           ("oneof_sibling", C.oneof_sibling), ("oneof_chained", C.oneof_chained), ("oneof_diamond", C.oneof_diamond),
           ("oneof_shared_inflight", C.oneof_shared_inflight), ("rec_inner_start", lambda: C.rec_inner_start(1)),
           ("rec_side_input", C.rec_side_input), ("fan", C.fan), ("two_chains", C.two_chains)]
for prop in ("C01", "C02", "C03", "C04", "C09", "C10"):
    for nm, f in ORDER_T:
        if prop == "C09" and not nm.startswith("switch"):
            continue
        if prop == "C10" and not nm.startswith("oneof"):
            continue
        _reg(prop, "order_" + nm, f, _VERD[prop], tier="thorough", judge_hang=(prop in ("C02", "C09", "C10")), budget=2400,
             param_orders=True, extra_syms=("declared or reversed parameter order of every node",))


# ------------------------------------------------------------------------------------ templates added after the third unseen round
ROUND3 = {
    "C02": [("rec_nested_pattern", C.rec_nested_pattern), ("oneof_candidate_also_input", C.oneof_candidate_also_input),
            ("two_chains", C.two_chains), ("rec_nested_in_oneof", C.rec_nested_in_oneof),
            ("rec_in_oneof_chain", C.rec_in_oneof_chain)],
    "C05": [("two_chains", C.two_chains), ("rec_nested_in_oneof", C.rec_nested_in_oneof)],
    "C03": [("oneof_candidate_also_input", C.oneof_candidate_also_input), ("rec_with_switch_inner", C.rec_with_switch_inner)],
    "C04": [("rec_with_oneof", C.rec_with_oneof), ("rec_nested_pattern", C.rec_nested_pattern)],
    "C09": [("rec_with_switch_inner", C.rec_with_switch_inner)],
    "C10": [("oneof_candidate_also_input", C.oneof_candidate_also_input), ("rec_nested_in_oneof", C.rec_nested_in_oneof),
            ("rec_in_oneof_chain", C.rec_in_oneof_chain)],
    "C11": [("rec_nested_pattern", C.rec_nested_pattern), ("rec_with_switch_inner", C.rec_with_switch_inner),
            ("rec_nested_in_oneof", C.rec_nested_in_oneof), ("rec_in_oneof_chain", C.rec_in_oneof_chain)],
}
for prop, specs in ROUND3.items():
    for nm, f in specs:
        _reg(prop, "r3_" + nm, f, _VERD[prop], tier="quick", judge_hang=(prop in ("C02", "C09", "C10", "C11")), budget=400,
             param_orders=(nm == "oneof_candidate_also_input"))
_reg("C14", "slow_collab_rhombus_bc", lambda: C.rhombus(True), _c14, tier="quick", cfg_fn=_slow(True, False), budget=400,
     beh_kw={"dur_nodes": {"B", "C"}}, extra_syms=SLOW_SYMS + ("durations of B and C",))
