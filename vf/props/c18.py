"""C18 — filesystem artifact store is a write-once map keyed exactly by node id.

The real FileSystemArtifactStore.save/load/_get_glob/_ensure_dir and serializer_factory run with
``filesystem.Path`` rebound to the in-memory stand-in (vf/mempath.py, diffed against real pathlib at every
run).  Symbolic: two node ids (bounded strings over an alphabet containing '.', and glob metacharacters),
a history of operations with symbolic op / key / format / context.  Oracle: a dict."""
from __future__ import annotations

from typing import Any, Dict, List, Optional, Tuple

from .. import mempath
from ..harness import untraced
from ..jobs import Job, register
from ..vloop import VLoop


class _Ctx:
    def __init__(self, model: str, pid: str) -> None:
        self.model_name = model
        self.pipeline_id = pid


CONTEXTS = (("m1", "p1"), ("m1", "p2"))
VALUES = ({"v": 1}, [2, "two"], 3)


def make(n_ops: int, max_len: int, alphabet: str, two_ctx: bool, bad_values: bool = False) -> Any:
    def mk() -> Any:
        import ml_pipeline_engine.artifact_store.store.filesystem as fsmod
        from ml_pipeline_engine.artifact_store.enums import DataFormat
        from ml_pipeline_engine.artifact_store.errors import ArtifactAlreadyExists, ArtifactDoesNotExist

        err = mempath.validate()
        if err:
            raise RuntimeError("stand-in vs real pathlib mismatch: " + err)
        fsmod.Path = mempath.MemPath  # checking process only
        FMTS = (DataFormat.PICKLE, DataFormat.JSON)

        def h(sym: Any) -> Tuple[str, Dict[str, Any]]:
            k1 = sym.str("id1", max_len, alphabet)
            k2 = sym.str("id2", max_len, alphabet)
            sym.assume(len(k1) >= 1 and len(k2) >= 1 and k1 != k2)
            keys = (k1, k2)
            mempath.MemPath.FS = mempath.MemFS()
            loop = VLoop(max_iterations=200)
            stores = [fsmod.FileSystemArtifactStore(_Ctx(*c), artifact_dir=mempath.MemPath("root")) for c in CONTEXTS]
            model: Dict[Tuple[int, int], Any] = {}
            label = None
            trace: List[Any] = []
            goals: List[str] = []
            for i in range(n_ops):
                op = sym.choice("op%d" % i, 2)  # 0 save, 1 load
                ki = sym.choice("key%d" % i, 2)
                ci = sym.choice("ctx%d" % i, 2) if two_ctx else 0
                st = stores[ci]
                if op == 0:
                    fi = sym.choice("fmt%d" % i, 2)
                    val = VALUES[i % len(VALUES)]
                    # which of the two classes of failing value an operation uses is fixed by its position (a three-way
                    # choice per operation does not fit the quick budget): op0, op2 the usual one, op1 the unusual one
                    bad_value = bad_values and sym.bool("unserialisable%d" % i) and (1 + i % 2)
                    if bad_value == 1:
                        val = (lambda: 0)  # neither picklable nor JSON-representable (TypeError / AttributeError / PicklingError)
                    elif bad_value == 2:
                        # fails in both formats with errors outside the usual serialisation classes: JSON meets the cycle
                        # first (ValueError), pickle the element whose __reduce_ex__ raises (RuntimeError)
                        val = [_Boom()]
                        val.insert(0, val)
                    kind, payload = loop.run_to_verdict(st.save(keys[ki], val, fmt=FMTS[fi]))
                    trace.append(("save", ki, ci, fi, kind))
                    if bad_value and (ci, ki) not in model:
                        goals.append("failed_save")
                        if kind == "done":
                            label = "unserialisable_value_saved:op%d" % i
                            break
                        continue  # the model is unchanged: the key must not appear saved, other keys stay intact
                    if (ci, ki) in model:
                        goals.append("second_save")
                        if not (kind == "raised" and isinstance(payload, ArtifactAlreadyExists)):
                            label = "second_save_not_rejected:op%d:%s" % (i, _k(kind, payload))
                            break
                    else:
                        if kind != "done":
                            if isinstance(payload, ArtifactAlreadyExists):
                                label = "alias:save_of_fresh_key_rejected:op%d" % i
                            else:
                                label = "save_failed:op%d:%s" % (i, _k(kind, payload))
                            break
                        model[(ci, ki)] = val
                        goals.append("saved_" + FMTS[fi].value)
                else:
                    kind, payload = loop.run_to_verdict(st.load(keys[ki]))
                    trace.append(("load", ki, ci, None, kind))
                    if (ci, ki) in model:
                        goals.append("load_hit")
                        if kind != "done":
                            label = "load_of_saved_key_failed:op%d:%s" % (i, _k(kind, payload))
                            break
                        if payload != model[(ci, ki)]:
                            label = "alias:load_returned_other_value:op%d" % i
                            break
                    else:
                        goals.append("load_miss")
                        if kind == "done":
                            label = "alias:load_of_unsaved_key_returned_value:op%d" % i
                            break
                        if not isinstance(payload, ArtifactDoesNotExist):
                            label = "load_of_unsaved_key:op%d:%s" % (i, _k(kind, payload))
                            break
            loop.shutdown()
            info = {"digest": [label, trace], "goals": sorted(set(goals)),
                    "summary": {"ops": [t[:4] for t in trace]}}
            return (label or "ok"), info

        return h

    return mk


def _k(kind: str, payload: Any) -> str:
    return type(payload).__name__ if kind == "raised" else kind


FUN = ["ml_pipeline_engine/artifact_store/store/filesystem.py::FileSystemArtifactStore.save/load/_get_glob/_ensure_dir, dont_use_for_prod",
       "ml_pipeline_engine/artifact_store/serializers.py::SerializerFactory.from_data_format/from_extension, PickleSerializer, JSONSerializer",
       "ml_pipeline_engine/artifact_store/store/base.py"]
class _Boom:
    def __reduce_ex__(self, protocol: Any) -> Any:
        raise RuntimeError("cannot be serialised")


A = ["pathlib.Path replaced by an in-memory stand-in (dirs/files, fnmatch glob, suffix, open) validated against real "
     "pathlib on a fixed corpus at every run; real-filesystem effects (permissions, case-insensitive file systems, "
     "concurrent writers) outside the claim",
     "values concretised to three picklable and JSON-representable samples (serialisation crosses a C boundary)",
     "node ids exclude '/' and NUL (path separators are outside 'node id')"]
register(Job("C18", "history3_dots", make(3, 3, "ab.", True), tier="quick", budget_s=500,
             parts=[{"op0": a, "op1": b, "op2": c, "key0": d, "key1": e} for a in range(2) for b in range(2)
                    for c in range(2) for d in range(2) for e in range(2)],
             goals=("second_save", "load_hit", "load_miss", "saved_pickle", "saved_json"),
             doc={"template": "history of 3 operations over 2 ids x 2 contexts x 2 formats",
                  "symbolic": ["id1, id2: strings 1..3 over {a, b, .}", "op_i in {save, load}", "key_i", "fmt_i", "ctx_i"],
                  "functions": FUN, "assumptions": A,
                  "bounds": "ids of length <= 3 over {a,b,.} (dots and prefixes); 3 operations; 2 contexts sharing one directory"}))
register(Job("C18", "history3_failed_saves", make(3, 2, "a.*[", False, bad_values=True), tier="quick", budget_s=500,
             parts=[{"op0": a, "op1": b, "op2": c, "key0": d} for a in range(2) for b in range(2) for c in range(2) for d in range(2)],
             goals=("failed_save", "load_hit", "load_miss"),
             doc={"template": "history of 3 operations where a save may be given an unserialisable value (it must fail, the key "
                              "must not appear saved, other keys must stay intact)",
                  "symbolic": ["id1, id2: strings 1..2 over {a . * [}", "op_i", "key_i", "fmt_i", "whether save_i gets an unserialisable value"],
                  "functions": FUN, "assumptions": A, "bounds": "ids of length <= 2; 3 operations; 1 context"}))
register(Job("C18", "history2_glob_chars", make(2, 2, "a.*?[]!", False), tier="quick", budget_s=500,
             parts=[{"op0": a, "op1": b} for a in range(2) for b in range(2)],
             goals=("second_save", "load_hit", "load_miss"),
             doc={"template": "history of 2 operations over 2 ids with glob metacharacters",
                  "symbolic": ["id1, id2: strings 1..2 over {a . * ? [ ] !}", "op_i", "key_i", "fmt_i"],
                  "functions": FUN, "assumptions": A,
                  "bounds": "ids of length <= 2 over {a . * ? [ ] !}; 2 operations; 1 context"}))
register(Job("C18", "history3_glob_chars", make(3, 3, "a.*?[]!-", True), tier="thorough", budget_s=3000,
             parts=[{"op0": a, "op1": b, "op2": c, "key0": d} for a in range(2) for b in range(2) for c in range(2) for d in range(2)],
             goals=("second_save", "load_hit", "load_miss"),
             doc={"template": "history of 3 operations, ids with glob metacharacters, 2 contexts",
                  "symbolic": ["id1, id2: strings 1..3 over {a . * ? [ ] ! -}", "op_i", "key_i", "fmt_i", "ctx_i"],
                  "functions": FUN, "assumptions": A, "bounds": "ids of length <= 3; 3 operations"}))


def make_concurrent() -> Any:
    """Two save() coroutines of one key started together on the loop: exactly one is accepted, the other raises
    ArtifactAlreadyExists, and load returns the accepted value (write-once also under overlapping saves)."""
    def mk() -> Any:
        import asyncio

        import ml_pipeline_engine.artifact_store.store.filesystem as fsmod
        from ml_pipeline_engine.artifact_store.enums import DataFormat
        from ml_pipeline_engine.artifact_store.errors import ArtifactAlreadyExists

        fsmod.Path = mempath.MemPath
        FMTS = (DataFormat.PICKLE, DataFormat.JSON)

        def h(sym: Any) -> Tuple[str, Dict[str, Any]]:
            k = sym.str("id", 2, "ab.")
            sym.assume(len(k) >= 1)
            f1, f2 = sym.choice("fmt_a", 2), sym.choice("fmt_b", 2)
            same_ctx = sym.bool("same_context")
            mempath.MemPath.FS = mempath.MemFS()
            loop = VLoop(max_iterations=300)
            st1 = fsmod.FileSystemArtifactStore(_Ctx(*CONTEXTS[0]), artifact_dir=mempath.MemPath("root"))
            st2 = st1 if same_ctx else fsmod.FileSystemArtifactStore(_Ctx(*CONTEXTS[1]), artifact_dir=mempath.MemPath("root"))

            async def both() -> Any:
                return await asyncio.gather(st1.save(k, {"v": 1}, fmt=FMTS[f1]), st2.save(k, {"v": 2}, fmt=FMTS[f2]),
                                            return_exceptions=True)

            kind, res = loop.run_to_verdict(both())
            label = None
            if kind != "done":
                label = "concurrent_saves:%s" % kind
            else:
                oks = [r is None for r in res]
                rej = [isinstance(r, ArtifactAlreadyExists) for r in res]
                if same_ctx:
                    if not (sum(oks) == 1 and sum(rej) == 1):
                        label = "write_once_broken_by_overlapping_saves:%s" % [type(r).__name__ for r in res]
                    else:
                        kind2, val = loop.run_to_verdict(st1.load(k))
                        want = {"v": 1} if oks[0] else {"v": 2}
                        if kind2 != "done" or val != want:
                            label = "accepted_value_not_the_stored_one"
                elif not all(oks):
                    label = "contexts_interfere:%s" % [type(r).__name__ for r in res]
            loop.shutdown()
            info = {"digest": [label, same_ctx, f1, f2], "goals": ["same_ctx:%d" % int(same_ctx)], "summary": {}}
            return (label or "ok"), info

        return h

    return mk


# ------------------------------------------------------------------ AST-derived SMT-LIB query, unbounded id length
def make_smtlib() -> Any:
    def mk() -> Any:
        from crosshair.util import UnknownSatisfiability

        from ml_pipeline_engine.artifact_store.enums import DataFormat
        from .. import smtlib as S

        def h(sym: Any) -> Tuple[str, Dict[str, Any]]:
            with untraced():
                try:
                    scheme = S.derive_fs_scheme()
                    q = S.fs_alias_query(scheme, [f.value for f in DataFormat])
                except S.NotDerivable as e:
                    scheme, q = None, None
                    why = str(e)
                if q is None:
                    res, v = {"derivation": "not derivable: " + why}, "inconclusive"
                else:
                    res = S.run_solvers(q)
                    v = S.verdict(res)
                model = S.model_of(q, ["k1", "k2", "f1", "f2"]) if v == "sat" else {}
            if v == "inconclusive":
                if sym.symbolic:
                    raise UnknownSatisfiability("SMT-LIB query inconclusive: %r" % ({k: r for k, r in res.items() if not k.endswith(".out")},))
                # concrete (warm-up / cross-check) mode: no verdict either way
                return "ok", {"digest": ["inconclusive"], "goals": [], "summary": dict(res, verdict="inconclusive")}
            label = None
            if v == "sat":
                label = "distinct_ids_alias:%s.%s_found_by_lookup_of_%s" % (model.get("k1"), model.get("f1"), model.get("k2"))
            info = {"digest": [v], "goals": ["decided"],
                    "summary": {"scheme": repr(scheme), "solvers": {k: r for k, r in res.items() if not k.endswith(".out")},
                                "model": model}}
            return (label or "ok"), info

        return h

    return mk


register(Job("C18", "overlapping_saves", make_concurrent(), tier="quick", budget_s=300, goals=("same_ctx:0", "same_ctx:1"),
             doc={"template": "two save() coroutines of one key gathered on the virtual loop (same context / two contexts)",
                  "symbolic": ["id: string 1..2 over {a,b,.}", "format of each save", "same context or not"],
                  "functions": FUN, "assumptions": A + ["work handed to an executor (asyncio.to_thread / run_in_executor) runs at a "
                                                      "later loop iteration (executor stub)"],
                  "bounds": "2 overlapping saves"}))
register(Job("C18", "smtlib_filename_scheme", make_smtlib(), tier="quick", budget_s=300, goals=("decided",),
             doc={"template": "SMT-LIB2 (QF_SLIA) query derived from the AST of filesystem.py: the f-string of the file name "
                              "written by save and the lookup (glob pattern or exact names) of _get_glob",
                  "symbolic": ["id1, id2: strings of ANY length without '/', '*', '?', '['", "fmt1, fmt2 in DataFormat"],
                  "functions": ["ml_pipeline_engine/artifact_store/store/filesystem.py::save (file name), _get_glob (lookup)"],
                  "bounds": "no length bound; metacharacter-free ids; decided by /usr/bin/z3 4.8.12, z3 5.1.0 and cvc5 1.0.3, "
                            "which must agree (any '(error', unknown or disagreement = inconclusive)",
                  "assumptions": ["the translation covers the two f-strings only (the directory layout and the serializer are "
                                  "covered by the CrossHair jobs); validated on the pre-fix glob scheme: sat with "
                                  "id1='OG.', id2='OG'"]}))
