"""C12 — retry and default policy applied exactly as configured.

Unit harness: the real ``DAGRunConcurrentManager.__execute_node`` (name-mangled) is driven
directly on the virtual loop with a stub context and a one-entry node map; configuration,
per-attempt outcomes, the argument value and the body duration are symbolic.  Plus engine
jobs with a retrying node beside a failing sibling (retry timer vs. failure race)."""
from __future__ import annotations

import asyncio
from typing import Any, Dict, List, Optional, Tuple

from .. import catalogue as C
from .. import verdicts as V
from ..harness import Obs, untraced
from ..jobs import Job, register
from ..refsem import RefResult
from ..spec import NodeBaseExc, NodeErr1, NodeErr2
from ..vloop import VLoop
from .common import auto_parts, doc, engine_harness

ATTEMPTS = (None, 0, 1, 2, 3)
EXC_SETS = (None, ("E1",), ("E1", "E2"), ("E2",), ("Exception",))
EXC_CLASSES = {"E1": NodeErr1, "E2": NodeErr2, "Exception": Exception}
MODES = ("async", "inline", "thread")


class _Ctx:
    def __init__(self, input_kwargs: Optional[Dict[str, Any]] = None) -> None:
        self.completes: List[Tuple[str, Any]] = []
        self.starts: List[str] = []
        self.input_kwargs = input_kwargs or {}

    async def emit_on_node_start(self, node_id: str) -> None:
        self.starts.append(node_id)

    async def emit_on_node_complete(self, node_id: str, error: Any) -> None:
        self.completes.append((node_id, error))


class _Dag:
    def __init__(self, node_map: Dict[str, Any]) -> None:
        import networkx as nx

        self.node_map = node_map
        self.graph = nx.DiGraph()
        self.graph.add_node("n")
        self.input_node = "n"
        self.output_node = "n"


def make_unit(max_attempts_idx: int = 5, base_exc: bool = False, slots: int = 4) -> Any:
    def make() -> Any:
        from ml_pipeline_engine.dag.manager import DAGRunConcurrentManager
        from ml_pipeline_engine.node import ProcessorBase
        from ..harness import set_pools

        set_pools()
        n_out = 4 if base_exc else 3

        def h(sym: Any) -> Tuple[str, Dict[str, Any]]:
            att = ATTEMPTS[sym.choice("attempts_idx", max_attempts_idx)]
            has_delay = sym.bool("has_delay")
            delay = sym.int("delay", 0, 5) if has_delay else None
            excs = EXC_SETS[sym.choice("exceptions_idx", len(EXC_SETS))]
            use_default = sym.bool("use_default")
            mode = MODES[sym.choice("mode", len(MODES))]
            arg = sym.int("arg", -100, 100)
            dur = sym.int("dur", 0, 3) if mode != "inline" else 0

            def outcome(k: int) -> int:  # lazily: only attempts that happen get a variable
                return sym.choice("outcome%d" % min(k, slots - 1), n_out)

            loop = VLoop(max_iterations=500)
            log: List[Tuple[str, Any, Any, Any]] = []  # (what, kwargs, t, extra)
            raised: List[BaseException] = []

            def body(kwargs: Dict[str, Any]) -> Any:
                k = sum(1 for x in log if x[0] == "end")
                log.append(("end", dict(kwargs), loop.time(), k))
                o = outcome(k)
                if o == 1:
                    e: BaseException = NodeErr1("n", k)
                elif o == 2:
                    e = NodeErr2("n", k)
                elif o == 3:
                    e = NodeBaseExc("n", k)
                else:
                    return ("val", k)
                raised.append(e)
                raise e

            with untraced():
                ns: Dict[str, Any] = {"name": "n", "__module__": "verif_generated"}
                if mode == "async":
                    async def process(self: Any, **kwargs: Any) -> Any:
                        log.append(("start", dict(kwargs), loop.time(), None))
                        await asyncio.sleep(dur)
                        return body(kwargs)
                else:
                    def process(self: Any, **kwargs: Any) -> Any:  # type: ignore[misc]
                        if mode == "inline":
                            log.append(("start", dict(kwargs), loop.time(), None))
                        return body(kwargs)
                    if mode == "inline":
                        ns["tags"] = ("non_async",)
                ns["process"] = process

                def get_default(self: Any, **kwargs: Any) -> Any:
                    log.append(("default", dict(kwargs), loop.time(), None))
                    return ("default",)

                ns["get_default"] = get_default
                if att is not None:
                    ns["attempts"] = att
                if delay is not None:
                    ns["delay"] = delay
                if excs is not None:
                    ns["exceptions"] = tuple(EXC_CLASSES[e] for e in excs)
                if use_default:
                    ns["use_default"] = True
                cls = type("N", (ProcessorBase,), ns)
                ctx = _Ctx({"x": arg})
                mgr = DAGRunConcurrentManager(dag=_Dag({"n": cls}), ctx=ctx)

            def duration_of() -> Any:
                log.append(("start", None, loop.time(), None))
                return dur

            loop.duration_of = duration_of
            # driven through _execute_node (processed mark, events, kwargs of the input node = the caller's dict), which
            # calls the retry loop __execute_node; a stub sub-dag object carries the one flag _execute_node reads
            import types as _types

            kind, payload = loop.run_to_verdict(mgr._execute_node(dag=_types.SimpleNamespace(is_oneof=False), node_id="n"))
            t_end = loop.time()
            loop.shutdown()

            # ---- 10-line reference ------------------------------------------------
            eff_att = att or 1
            eff_delay = delay or 0
            filt = tuple(EXC_CLASSES[e] for e in excs) if excs else (Exception,)
            exp_calls = 0
            exp: Tuple[str, Any]
            while True:
                o = outcome(exp_calls)
                exp_calls += 1
                if o == 0:
                    exp = ("val", exp_calls - 1)
                    break
                if o == 3:
                    exp = ("raise", NodeBaseExc)
                    break
                ecls = NodeErr1 if o == 1 else NodeErr2
                if issubclass(ecls, filt) and exp_calls < eff_att:
                    continue
                exp = ("default", None) if use_default else ("raise", ecls)
                break

            ends = [x for x in log if x[0] == "end"]
            starts = [x for x in log if x[0] == "start"]
            defaults = [x for x in log if x[0] == "default"]
            label = None
            if kind in ("deadlock", "livelock"):
                label = kind
            elif len(ends) != exp_calls:
                label = "invocations:%d!=%d" % (len(ends), exp_calls)
            elif any(sorted(e[1].keys()) != ["x"] or not V.same(e[1]["x"], arg) for e in ends):
                label = "kwargs_changed_between_attempts"
            elif exp[0] == "val" and not (kind == "done" and payload == ("val", exp[1])):
                label = "wrong_result:%s" % kind
            elif exp[0] == "default" and not (kind == "done" and payload == ("default",)):
                label = "default_not_returned:%s" % kind
            elif exp[0] == "default" and not (len(defaults) == 1 and sorted(defaults[0][1].keys()) == ["x"]
                                               and V.same(defaults[0][1]["x"], arg)):
                label = "default_args"
            elif exp[0] != "default" and defaults:
                label = "default_called"
            elif exp[0] == "raise" and not (kind == "raised" and type(payload) is exp[1] and payload is raised[-1]):
                label = "wrong_exception:%s" % kind
            else:
                # delay between attempts: start[i+1] == end[i] + delay
                for i in range(len(ends) - 1):
                    if len(starts) > i + 1:
                        if not V.same(starts[i + 1][2], ends[i][2] + eff_delay):
                            label = "delay_between_attempts"
                            break
                want_completes = exp_calls - 1 if (exp[0] == "raise" and exp[1] is NodeBaseExc) else exp_calls
                if label is None and len(ctx.completes) != want_completes:
                    label = "complete_events:%d!=%d" % (len(ctx.completes), want_completes)
            goals = ["exp_" + exp[0], "calls:%d" % exp_calls, "mode:" + mode]
            if exp_calls > 1:
                goals.append("retried")
            info = {"digest": [kind, (list(payload) if isinstance(payload, tuple) else None) if kind != "raised" else type(payload).__name__, len(ends),
                               [x[2] for x in log]],
                    "goals": goals,
                    "summary": {"attempts": att, "delay": delay, "exceptions": excs, "use_default": use_default,
                                "mode": mode, "outcomes": [outcome(i) for i in range(exp_calls)], "expected": [exp[0], exp_calls]}}
            return (label or "ok"), info

        return h

    return make


UNIT_DOC = {
    "template": "unit: DAGRunConcurrentManager._execute_node -> __execute_node with stub ctx, one-node graph and node_map",
    "symbolic": ["attempts in {None,0,1,2,3}", "delay in {None} U [0,5]", "exceptions in {None,(E1),(E1,E2),(E2),(Exception)}",
                 "use_default", "mode in {async,inline,thread}", "4 per-attempt outcomes in {ok,E1,E2}(+BaseException)",
                 "argument value in [-100,100]", "body duration in [0,3]"],
    "functions": ["ml_pipeline_engine/dag/manager.py::DAGRunConcurrentManager._execute_node, __execute_node, _get_node_kwargs",
                  "ml_pipeline_engine/node/retrying.py::NodeRetryPolicy.delay/attempts/exceptions",
                  "ml_pipeline_engine/node/node.py::run_node, run_node_default, get_callable_run_method",
                  "ml_pipeline_engine/module_loading.py::get_instance"],
    "bounds": "attempts <= 3, 4 outcome slots (the 4th repeats), delay <= 5; larger values outside the claim",
}

PARTS = [{"mode": m, "use_default": u, "exceptions_idx": e} for m in range(3) for u in range(2) for e in range(5)]
register(Job("C12", "unit_retry", make_unit(base_exc=True), tier="quick", budget_s=400, parts=PARTS,
             goals=("exp_val", "exp_default", "exp_raise", "retried", "calls:3"), doc=UNIT_DOC))
register(Job("C12", "unit_retry_6slots", make_unit(base_exc=True, slots=6), tier="thorough", budget_s=1500,
             parts=[{"mode": m, "use_default": u, "exceptions_idx": e} for m in range(3) for u in range(2) for e in range(5)],
             goals=("exp_val", "exp_default", "exp_raise", "retried"), doc=UNIT_DOC))


def _c12_engine(obs: Obs, ref: RefResult, sym: Any) -> Any:
    return [x for x in (V.hang(obs), V.blocking(obs), V.once(obs, ref), V.args(obs, ref), V.outcome(obs, ref)) if x]


SYMS = ["caller input", "durations", "per-attempt outcome kinds of the retrying node and of its sibling", "task-set order"]
register(Job("C12", "retry_sibling", engine_harness(lambda: C.retry_sibling(2, 1, False), _c12_engine), tier="quick",
             budget_s=300, parts=auto_parts(C.retry_sibling(2, 1, False)), doc=doc("retry_sibling", SYMS)))
register(Job("C12", "retry_sibling_default", engine_harness(lambda: C.retry_sibling(3, 2, True), _c12_engine),
             tier="quick", budget_s=300, goals=("default_used",), parts=auto_parts(C.retry_sibling(3, 2, True)),
             doc=doc("retry_sibling_default", SYMS)))
register(Job("C12", "retry_chain", engine_harness(lambda: C.retry_chain(3, True), _c12_engine), tier="quick",
             budget_s=300, goals=("default_used",), doc=doc("retry_chain", SYMS)))


# ------------------------------------------------------------------ NodeRetryPolicy pass-through (symbolic float delay)
def make_policy() -> Any:
    def mk() -> Any:
        from crosshair.core import proxy_for_type
        from crosshair.tracers import NoTracing

        from ml_pipeline_engine.node.retrying import NodeRetryPolicy

        def h(sym: Any) -> Tuple[str, Dict[str, Any]]:
            if sym.symbolic:
                with NoTracing():
                    d = proxy_for_type(float, "delay_f", allow_subtypes=False)
                sym.vars["delay_f"] = d
            else:
                d = float(sym.w.get("delay_f", 0.0))
                sym.used["delay_f"] = d
            sym.assume(d == d and 0.0 <= d <= 100.0)  # finite, non-negative
            has_delay = sym.bool("has_delay")
            att = ATTEMPTS[sym.choice("attempts_idx", len(ATTEMPTS))]
            excs = EXC_SETS[sym.choice("exceptions_idx", len(EXC_SETS))]
            with untraced():
                ns: Dict[str, Any] = {}
                if att is not None:
                    ns["attempts"] = att
                if excs is not None:
                    ns["exceptions"] = tuple(EXC_CLASSES[e] for e in excs)
                cls = type("N", (), dict({"attempts": None, "delay": None, "exceptions": None}, **ns))
            if has_delay:
                cls.delay = d
            pol = NodeRetryPolicy(node=cls)
            label = None
            want_delay = d if (has_delay and d != 0) else 0
            if not (pol.delay == want_delay):
                label = "policy_delay_differs_from_configured_delay"
            elif pol.attempts != (att or 1):
                label = "policy_attempts"
            elif pol.exceptions != (tuple(EXC_CLASSES[e] for e in excs) if excs else (Exception,)):
                label = "policy_exceptions"
            info = {"digest": [label], "goals": ["checked"], "summary": {"attempts": att, "exceptions": excs}}
            return (label or "ok"), info

        return h

    return mk


register(Job("C12", "unit_policy_passthrough", make_policy(), tier="quick", budget_s=200, goals=("checked",),
             doc={"template": "unit: NodeRetryPolicy(node).delay/attempts/exceptions",
                  "symbolic": ["delay: symbolic float in [0,100] (fractional seconds)", "attempts in {None,0,1,2,3}", "exceptions (5 settings)"],
                  "functions": ["ml_pipeline_engine/node/retrying.py::NodeRetryPolicy.delay/attempts/exceptions"],
                  "bounds": "delay <= 100 s; float modelled by CrossHair/z3",
                  "assumptions": ["the engine harness uses integer virtual time, so fractional delays are checked here, at the "
                                  "policy that hands the delay to asyncio.sleep, and the sleep itself with integer delays"]}))

register(Job("C12", "rec_retry_inside", engine_harness(C.rec_retry_inside, _c12_engine), tier="quick", budget_s=400,
             parts=auto_parts(C.rec_retry_inside()), goals=("reiterated",),
             doc=doc("rec_retry_inside: a retrying node inside a recurrent subgraph (attempts per iteration)", SYMS)))


def _c12_same_args(obs: Obs, ref: RefResult, sym: Any) -> Any:
    """Attempts of one execution of R are made with the arguments of its first attempt (R is executed once in this template,
    so all its invocations are attempts of that execution).  Which iteration's value the first attempt sees is the recorded
    outside-reader finding and is not judged here."""
    out = [x for x in (V.hang(obs), V.blocking(obs)) if x]
    invs = [i for i in obs.rc.invs if i.node == "R"]
    for a, b in zip(invs, invs[1:]):
        if sorted(a.kwargs) != sorted(b.kwargs) or any(not V.same(a.kwargs[k], b.kwargs[k]) for k in a.kwargs):
            out.append("attempt_%d_args_differ_from_attempt_%d:R" % (b.k, a.k))
            break
    return out


register(Job("C12", "retry_outside_reader", engine_harness(C.retry_outside_reader, _c12_same_args), tier="quick", budget_s=400,
             parts=auto_parts(C.retry_outside_reader()), goals=("reiterated",),
             doc=doc("retry_outside_reader: a retrying node reading the start node of a recurrent subgraph from outside; the "
                     "subgraph re-iterates between its attempts", SYMS)))
