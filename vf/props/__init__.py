"""Per-property job definitions."""
