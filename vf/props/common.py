"""Shared harness factory for the engine-run family of properties."""
from __future__ import annotations

from typing import Any, Callable, Dict, List, Optional, Sequence, Tuple

from .. import catalogue as C
from .. import verdicts as V
from ..harness import Cfg, Obs, run_engine, set_pools
from ..refsem import Fail, Ref, RefResult, Val
from ..spec import Behaviour, Spec

ENGINE_FUNCS = [
    "ml_pipeline_engine/chart.py::PipelineChart.run",
    "ml_pipeline_engine/context/dag.py::DAGPipelineContext(+create_context_from_chart, save_node_result)",
    "ml_pipeline_engine/events.py::EventSourceMixin._emit/emit_*",
    "ml_pipeline_engine/dag/dag.py::DAG.run/_start_runtime_validation/_validate_pool_executors",
    "ml_pipeline_engine/dag/manager.py::DAGRunConcurrentManager (all methods), DAGConcurrentManagerLock",
    "ml_pipeline_engine/dag/storage.py::DAGNodeStorage, HiddenDict",
    "ml_pipeline_engine/dag/graph.py::get_connected_subgraph, DiGraph (native, concrete inputs)",
    "ml_pipeline_engine/node/node.py::run_node/run_node_default/get_callable_run_method/get_node_id",
    "ml_pipeline_engine/node/retrying.py::NodeRetryPolicy",
    "ml_pipeline_engine/module_loading.py::get_instance",
    "ml_pipeline_engine/dag_builders/annotation/builder.py::build_dag (native, concrete declarations)",
]


def goals_of(obs: Obs, ref: RefResult) -> List[str]:
    g = []
    out = ref.outcome
    if isinstance(out, Val):
        g.append("ref_value")
    elif isinstance(out, Fail):
        g.append("ref_fail")
        for c in out.causes:
            if len(c) >= 2 and isinstance(c[1], str):
                g.append("ref_fail_" + c[1])
    else:
        g.append("ref_fatal")
    for (owner, idx), w in ref.winners.items():
        tried = ref.oneof_tried.get((owner, idx), [])
        if w is None:
            g.append("oneof_all_failed")
        elif tried and tried[0] != w:
            g.append("oneof_fallback")
        else:
            g.append("oneof_first")
    for name, c in ref.selected.items():
        g.append("label_none" if c is None else "case:" + c)
    if any(e > 0 for e in ref.epochs.values()):
        g.append("reiterated")
        g.append("epochs:%d" % max(ref.epochs.values()))
    if ref.defaults:
        g.append("default_used")
    counts: Dict[str, int] = {}
    for n, k, kw in ref.invs:
        counts[n] = counts.get(n, 0) + 1
    if obs.kind in ("deadlock", "livelock"):
        g.append(obs.kind)
    return sorted(set(g))


def summary(obs: Obs, ref: RefResult) -> Dict[str, Any]:
    out = ref.outcome
    return {
        "engine": [obs.kind, None if obs.result is None else obs.result.value,
                   None if obs.error is None else type(obs.error).__name__],
        "ref": ("val" if isinstance(out, Val) else ("fail" if isinstance(out, Fail) else "fatal")),
        "order": [i.node for i in obs.rc.invs],
        "iterations": obs.iterations,
    }


def auto_parts(spec: Spec, max_parts: int = 16, rev: bool = True, skip: Sequence[str] = ()) -> List[Dict[str, Any]]:
    """Partition a job's search tree on its finite selectors (task-set order, first outcome kind of fallible
    nodes, first label of deciders, requested iteration count): one independent CrossHair tree per part."""
    dims: List[Tuple[str, int]] = []
    if rev:
        dims.append(("rev_taskset", 2))
    for nd in spec.nodes:
        if nd.want_max > 0:
            dims.append(("r.%s.want" % nd.name, nd.want_max + 1))
    for nd in spec.nodes:
        n_lab = len(nd.labels) + (1 if nd.unknown_label else 0) + (1 if nd.none_label else 0)
        if n_lab > 1:
            dims.append(("r.%s.label0" % nd.name, n_lab))
    for nd in spec.nodes:
        if len(nd.kinds) > 1:
            dims.append(("r.%s.kind0" % nd.name, len(nd.kinds)))
    parts: List[Dict[str, Any]] = [{}]
    for name, n in dims:
        if name in skip:
            continue
        if len(parts) * n > max_parts:
            continue
        parts = [dict(p, **{name: i}) for p in parts for i in range(n)]
    return parts


def default_dur_nodes(spec: Spec) -> set:
    """Durations of the input and the output node are fixed to 0 by default: nothing of the run is in flight
    before the input node ends or (in the catalogue's shapes) needed after the output node started."""
    if spec.dur_nodes is not None:
        return set(spec.dur_nodes)
    return {n.name for n in spec.nodes if n.name not in (spec.input, spec.output)}


def engine_harness(
    spec_factory: Callable[[], Spec],
    verdict: Callable[[Obs, RefResult, Any], Optional[str]],
    *,
    beh_kw: Optional[Dict[str, Any]] = None,
    cfg_fn: Optional[Callable[[Any], Cfg]] = None,
    judge_hang: bool = False,
    rev: bool = True,
    param_orders: bool = False,
) -> Callable[[], Any]:
    """Returns make() -> harness(sym)."""

    def make() -> Any:
        spec0 = spec_factory()
        set_pools()
        bk = dict(beh_kw or {})
        if "dur_nodes" not in bk:
            bk["dur_nodes"] = default_dur_nodes(spec0)
        elif bk["dur_nodes"] == "all":
            bk["dur_nodes"] = None
        spec_rev = None
        if param_orders:
            # the same declarations with every node's parameters declared in reverse order: changes the builder's
            # traversal order and with it the manager's launch order among nodes of equal depth
            import copy as _copy

            nodes = [_copy.copy(n) for n in spec0.nodes]
            for n in nodes:
                n.params = tuple(reversed(n.params))
            spec_rev = Spec(spec0.name + "_revparams", nodes, spec0.input, spec0.output, spec0.input_keys, spec0.dur_nodes)

        def h(sym: Any) -> Tuple[str, Dict[str, Any]]:
            spec = spec0
            if spec_rev is not None and sym.bool("reversed_param_order"):
                spec = spec_rev
            beh = Behaviour(sym, spec, **bk)
            cfg = cfg_fn(sym) if cfg_fn else Cfg()
            if rev:
                cfg.rev_taskset = sym.bool("rev_taskset")
            obs = run_engine(spec, beh, cfg)
            ref = Ref(spec, beh).run()
            labels: List[str] = []
            if judge_hang and V.hang(obs):
                labels.append(V.hang(obs))
            got = verdict(obs, ref, sym)
            for lab in (got if isinstance(got, (list, tuple)) else [got]):
                if lab and lab not in labels:
                    labels.append(lab)
            info = {"digest": obs.digest(), "goals": goals_of(obs, ref), "summary": summary(obs, ref)}
            return (labels or "ok"), info

        return h

    return make


def doc(template: str, symbolic: Sequence[str], extra: Optional[Dict[str, Any]] = None) -> Dict[str, Any]:
    d = {"template": template, "symbolic": list(symbolic), "functions": ENGINE_FUNCS,
         "bounds": "durations of all nodes except the input and output node in [0,86399] (all completion orders incl. "
                   "ties and zero; input/output node durations fixed to 0 unless the job says otherwise); caller input "
                   "in [-1000,1000]; loop iteration cap 3000 (Livelock); per-node outcome kinds as listed"}
    if extra:
        d.update(extra)
    return d
