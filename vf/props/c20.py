"""C20 — the viewer graph description is a faithful projection of the DAG."""
from __future__ import annotations

import json
import sys
import types
from typing import Any, Dict, List, Optional, Tuple

from .. import family as F
from ..harness import graph_snapshot, snapshot_diff, untraced
from ..jobs import Job, register


def _stub_viewer_imports() -> None:
    """importlib_resources / distutils.dir_util are only used by build_static (no property covers it);
    they are not installed here, so empty stand-ins let ml_pipeline_viewer.visualization.dag import."""
    if "importlib_resources" not in sys.modules:
        try:
            import importlib_resources  # noqa: F401
        except Exception:  # noqa: BLE001
            sys.modules["importlib_resources"] = types.ModuleType("importlib_resources")
    try:
        import distutils.dir_util  # noqa: F401
    except Exception:  # noqa: BLE001
        d = sys.modules.get("distutils") or types.ModuleType("distutils")
        du = types.ModuleType("distutils.dir_util")
        du.copy_tree = lambda *a, **k: None  # type: ignore[attr-defined]
        d.dir_util = du  # type: ignore[attr-defined]
        sys.modules["distutils"] = d
        sys.modules["distutils.dir_util"] = du


def check_config(dag: Any, cfg: Any) -> Optional[str]:
    from ml_pipeline_engine.node.enums import NodeType

    g = dag.graph
    d = cfg.as_dict()
    try:
        json.dumps(d)
    except Exception as e:  # noqa: BLE001
        return "not_json_serialisable:%s" % type(e).__name__
    ids = [n["id"] for n in d["nodes"]]
    if sorted(ids) != sorted(g.nodes):
        return "node_entries_differ"
    if len(set(ids)) != len(ids):
        return "duplicate_node_entry"
    types_seen = set()
    for n in d["nodes"]:
        real = dag.node_map.get(n["id"])
        if real is None:
            if not n["is_virtual"]:
                return "synthetic_not_virtual:%s" % n["id"]
            want = "switch" if n["id"].startswith("switch__") else "input_one_of"
            if n["type"] != want:
                return "synthetic_type:%s:%s" % (n["id"], n["type"])
            if n["data"] is not None:
                return "synthetic_has_data"
        else:
            if n["is_virtual"]:
                return "real_node_marked_virtual:%s" % n["id"]
            if n["type"] != real.node_type:
                return "node_type:%s" % n["id"]
            if n["data"] is None or n["data"]["name"] != real.name or n["data"]["verbose_name"] != real.verbose_name:
                return "node_data:%s" % n["id"]
            if not n["data"]["doc"]:
                return "node_doc_missing:%s" % n["id"]
            generic = getattr(real, "__generic_class__", None) is not None
            if bool(n["is_generic"]) != generic:
                return "is_generic_flag:%s" % n["id"]
        if n["type"] is not None:
            types_seen.add(n["type"])
    edges = [(e["source"], e["target"]) for e in d["edges"]]
    if sorted(edges) != sorted(g.edges):
        return "edge_entries_differ"
    eids = [e["id"] for e in d["edges"]]
    if len(set(eids)) != len(eids):
        return "duplicate_edge_id"
    for s, t in edges:
        if s not in ids or t not in ids:
            return "edge_endpoint_missing"
    for ty in types_seen:
        if ty not in d["node_types"]:
            return "node_type_table_misses:%s" % ty
    for k, v in d["node_types"].items():
        if v["name"] != k:
            return "node_type_table_key"
    return None


def make(variant: str) -> Any:
    def mk() -> Any:
        _stub_viewer_imports()
        from ml_pipeline_engine.dag_builders.annotation import marks as M
        from ml_pipeline_engine.dag_builders.annotation.builder import build_dag
        from ml_pipeline_engine.node import build_node
        from ml_pipeline_viewer.visualization.dag import GraphConfigImpl
        from ..fam_nodes import CLASSES, CustomType, EnumTyped, GenericBase, Untyped

        def h(sym: Any) -> Tuple[str, Dict[str, Any]]:
            prog = F.program(sym)
            recs = [m for i in (3, 4) for _, m in prog[i] if m[0] == "rec"]
            if len(recs) == 2 and recs[0][2] == recs[1][2] and recs[0][1] != recs[1][1]:
                sym.assume(False)
            label = None
            with untraced():
                classes = list(CLASSES)
                if variant == "generic":
                    # N1 becomes a build_node-derived generic node bound to N0
                    classes[1] = build_node(GenericBase, node_name="f1", class_name="GenericF1", a=M.Input(classes[0]))
                    F.annotate(prog, classes)
                    classes[1].process.__annotations__ = {"a": M.Input(classes[0]), "additional_data": Optional[Any]}
                elif variant == "enum_typed":
                    classes[1] = EnumTyped
                    F.annotate(prog, classes)
                elif variant == "untyped":
                    classes[1] = Untyped
                    F.annotate(prog, classes)
                elif variant == "custom_type":
                    classes[1] = CustomType
                    F.annotate(prog, classes)
                    CustomType.name = "f1"
                else:
                    F.annotate(prog, classes)
                try:
                    dag = build_dag(input_node=classes[0], output_node=classes[4])
                except Exception as e:  # noqa: BLE001
                    dag = None
                    label = "build_failed:%s" % type(e).__name__
                if dag is not None:
                    snap = graph_snapshot(dag)
                    try:
                        impl = GraphConfigImpl(dag)
                        cfg = impl.generate(name="g", verbose_name="G", repo_link="http://x")
                        # the same object asked again (e.g. with colours): both descriptions must be right
                        cfg2 = impl.generate(name="g", node_colors={"processor": "#fff"})
                    except Exception as e:  # noqa: BLE001
                        cfg = None
                        label = "generate_raised:%s" % type(e).__name__
                    if cfg is not None:
                        label = check_config(dag, cfg)
                        if label is None:
                            l2 = check_config(dag, cfg2)
                            if l2:
                                label = "second_generate_on_same_object:" + l2
                        if label is None:
                            dm = snapshot_diff(snap, graph_snapshot(dag))
                            if dm:
                                label = "dag_modified:" + dm
            goals = ["n3:" + prog[3][0][1][0], "n4:" + prog[4][0][1][0]]
            info = {"digest": [label, repr(prog)], "goals": goals, "summary": {"program": repr(prog[1:])}}
            return (label or "ok"), info

        return h

    return mk


def make_units() -> Any:
    def mk() -> Any:
        _stub_viewer_imports()
        from ml_pipeline_engine.node.enums import NodeType
        from ml_pipeline_engine.node.node import generate_node_id
        from ml_pipeline_viewer.visualization import schema

        def h(sym: Any) -> Tuple[str, Dict[str, Any]]:
            s1, t1 = sym.str("source1", 3, "ab-"), sym.str("target1", 3, "ab-")
            s2, t2 = sym.str("source2", 3, "ab-"), sym.str("target2", 3, "ab-")
            for x in (s1, t1, s2, t2):
                sym.assume(len(x) > 0 and not x.startswith("-") and not x.endswith("-"))
            e1 = schema.Edge(source=s1, target=t1)
            e2 = schema.Edge(source=s2, target=t2)
            label = None
            if (s1 != s2 or t1 != t2) and e1.id == e2.id:
                label = "distinct_edges_same_id"
            info = {"digest": [label], "goals": ["checked"], "summary": {}}
            return (label or "ok"), info

        return h

    return mk


FUN = ["ml_pipeline_viewer/visualization/dag.py::GraphConfigImpl._generate_nodes/_generate_edges/_generate_node_types/generate/"
       "_get_node_relative_path", "ml_pipeline_viewer/visualization/schema.py (dataclasses, Edge.__post_init__, as_dict)",
       "ml_pipeline_engine/node/enums.py::NodeType.by_prefix/is_generic",
       "ml_pipeline_engine/dag_builders/annotation/builder.py::build_dag (native)"]
A = ["importlib_resources and distutils.dir_util stubbed as empty modules so that the viewer module imports "
     "(only build_static uses them; no property covers it)"]
PARTS = [{"n3_kind": a, "n4_kind": b} for a in range(4) for b in range(4)]
for v, tier in (("plain", "quick"), ("generic", "quick"), ("custom_type", "quick"), ("untyped", "quick"), ("enum_typed", "quick")):
    register(Job("C20", "family_" + v, make(v), tier=tier, budget_s=600, parts=PARTS,
                 goals=("n3:sw", "n3:oneof", "n3:rec", "n4:sw", "n4:oneof", "n4:rec"),
                 doc={"template": "C15 family (5 declarations, every mark kind), variant " + v,
                      "symbolic": ["mark kind and bound nodes of N3 and N4", "N2 source", "N4 second parameter"],
                      "functions": FUN, "assumptions": A, "bounds": "~3600 programs per variant, case-split by z3"}))
register(Job("C20", "edge_id_injective", make_units(), tier="quick", budget_s=300, goals=("checked",),
             doc={"template": "unit: schema.Edge.id on two symbolic (source, target) pairs",
                  "symbolic": ["source1", "target1", "source2", "target2"], "functions": FUN,
                  "bounds": "strings of length <= 3 over {a, b, -}; ids not starting/ending with '-' (node ids are "
                            "'<type>__<name>' and never do)"}))
