"""C06 — independent nodes of equal depth run concurrently.

Family F_plain: n nodes, node i>0 has one or two Input parameters, each bound to an earlier node by a
symbolic selector (the program is the quantified object).  Nodes at a symbolic depth `hold` never
complete; at quiescence (Deadlock is the expected end here) every node of that depth must have started."""
from __future__ import annotations

from typing import Any, Dict, List, Optional, Tuple

from ..harness import Cfg, run_engine, set_pools, untraced
from ..jobs import Job, register
from ..spec import Behaviour, In, Node, Spec
from .common import doc

MODES = ("async", "thread", "process")


def make(n: int, sym_dur: bool, sym_modes: bool = True, sym_generic: bool = False) -> Any:
    def mk() -> Any:
        set_pools()

        def h(sym: Any) -> Tuple[str, Dict[str, Any]]:
            # ---- program: binding selectors -------------------------------------------
            binds: List[List[int]] = [[]]
            for i in range(1, n):
                p0 = sym.choice("bind%d_0" % i, i)
                p1 = sym.choice("bind%d_1" % i, i + 1) - 1  # -1 = no second parameter
                if p1 == p0:
                    # two parameters bound to the same node: C15's subject (edge collapse), not C06's
                    p1 = -1
                    sym.assume(False)
                binds.append([p0] + ([p1] if p1 >= 0 else []))
            # nodes reachable from the output (= the DAG)
            out = n - 1
            used = {out}
            stack = [out]
            while stack:
                c = stack.pop()
                for b in binds[c]:
                    if b not in used:
                        used.add(b)
                        stack.append(b)
            depth: Dict[int, int] = {0: 0}
            for i in range(1, n):
                depth[i] = 1 + max(depth[b] for b in binds[i])
            maxd = max(depth[i] for i in used)
            hold = 1 + sym.choice("hold_depth", maxd)  # 1..maxd
            held = sorted(i for i in used if depth[i] == hold)
            modes = {}
            generic = {}
            for i in range(n):
                modes[i] = MODES[sym.choice("mode%d" % i, 3)] if (i in held and sym_modes) else "async"
                generic[i] = bool(sym.choice("generic%d" % i, 2)) if (i in held and sym_generic) else False
            with untraced():
                nodes = [Node("N0")]
                for i in range(1, n):
                    nodes.append(Node("N%d" % i, tuple(("p%d" % j, In("N%d" % b)) for j, b in enumerate(binds[i])),
                                      mode=modes[i], generic=generic[i]))
                spec = Spec("plain%d" % n, nodes, "N0", "N%d" % out)
            beh = Behaviour(sym, spec, sym_dur=sym_dur, dur_nodes={"N%d" % i for i in used if depth[i] < hold})
            cfg = Cfg(hold={"N%d" % i for i in held}, rev_taskset=False)
            obs = run_engine(spec, beh, cfg)
            started = {nd for _, k, nd, _ in obs.rc.log if k == "start"}
            label = None
            if obs.kind != "deadlock":
                label = "unexpected_end:%s" % obs.kind  # all held nodes are needed by the output
            else:
                for i in held:
                    if "N%d" % i not in started:
                        label = "sibling_not_started:N%d(depth %d, mode %s) while %s held" % (
                            i, hold, modes[i], ",".join("N%d" % j for j in held if j != i))
                        break
                if label is None:
                    deeper = [i for i in used if depth[i] > hold and "N%d" % i in started]
                    if deeper:
                        label = "started_before_inputs:N%d" % deeper[0]
            goals = ["held:%d" % min(len(held), 3)]
            if len(held) >= 2:
                goals.append("siblings_held")
            if len({modes[i] for i in held}) > 1:
                goals.append("mixed_modes_held")
            if any(generic[i] and modes[i] != "async" for i in held):
                goals.append("generic_sync_node_held")
            info = {"digest": [obs.kind, sorted(started), [(i.node, i.k) for i in obs.rc.invs]],
                    "goals": goals,
                    "summary": {"binds": binds, "hold_depth": hold, "held": held, "modes": [modes[i] for i in held],
                                "generic": [generic[i] for i in held],
                                "started": sorted(started)}}
            return (label or "ok"), info

        return h

    return mk


D = {"template": "family F_plain", "functions": [
    "ml_pipeline_engine/dag/manager.py::_run_dag/_get_node_order/_is_ready_to_execute/_run_node/_execute_node",
    "ml_pipeline_engine/node/node.py::run_node (dispatch coroutine / executor)",
    "ml_pipeline_engine/dag_builders/annotation/builder.py::build_dag (native)"]}
register(Job("C06", "plain_n4", make(4, False), tier="quick", budget_s=500,
             parts=[{"bind2_0": a, "bind3_0": b} for a in range(2) for b in range(3)],
             goals=("siblings_held", "mixed_modes_held"),
             doc={**D, "symbolic": ["binding selector of every parameter (36 programs)", "hold depth", "mode of each held node in {async,thread,process}"],
                  "bounds": "n = 4 nodes, <= 2 Input parameters per node, durations below the held depth fixed to 0"}))
register(Job("C06", "plain_n4_generic", make(4, False, True, True), tier="quick", budget_s=500,
             parts=[{"bind2_0": a, "bind3_0": b} for a in range(2) for b in range(3)],
             goals=("siblings_held", "generic_sync_node_held"),
             doc={**D, "symbolic": ["binding selectors (36 programs)", "hold depth", "mode of each held node",
                                    "whether each held node is declared through build_node (generic)"],
                  "bounds": "n = 4 nodes, durations 0"}))
register(Job("C06", "plain_n5_async", make(5, False, False), tier="quick", budget_s=500,
             parts=[{"bind2_0": a, "bind3_0": b, "bind4_0": c} for a in range(2) for b in range(3) for c in range(4)],
             goals=("siblings_held",),
             doc={**D, "symbolic": ["binding selectors (576 programs, incl. unbalanced shapes)", "hold depth"],
                  "bounds": "n = 5 nodes, all coroutine nodes, durations 0"}))
register(Job("C06", "plain_n4_durations", make(4, True), tier="thorough", budget_s=1800,
             parts=[{"bind2_0": a, "bind3_0": b} for a in range(2) for b in range(3)],
             goals=("siblings_held",),
             doc={**D, "symbolic": ["binding selectors", "hold depth", "modes of held nodes", "durations of all nodes below the held depth"],
                  "bounds": "n = 4"}))
register(Job("C06", "plain_n6_async", make(6, False, False), tier="thorough", budget_s=2400,
             parts=[{"bind2_0": a, "bind3_0": b, "bind4_0": c, "bind5_0": d} for a in range(2) for b in range(3) for c in range(4) for d in range(5)],
             goals=("siblings_held",),
             doc={**D, "symbolic": ["binding selectors (17280 programs)", "hold depth"],
                  "bounds": "n = 6 nodes, all coroutine nodes, durations 0"}))
register(Job("C06", "plain_n5", make(5, False), tier="thorough", budget_s=2400,
             parts=[{"bind2_0": a, "bind3_0": b, "bind4_0": c} for a in range(2) for b in range(3) for c in range(4)],
             goals=("siblings_held", "mixed_modes_held"),
             doc={**D, "symbolic": ["binding selectors (576 programs)", "hold depth", "modes of held nodes"],
                  "bounds": "n = 5 nodes, <= 2 Input parameters per node, durations 0"}))


# ------------------------------------------------------------------ the engine never blocks the loop thread
def _blocking_verdict(obs: Any, ref: Any, sym: Any) -> Any:
    from .. import verdicts as V

    return V.blocking(obs)


from .. import catalogue as _C  # noqa: E402
from .common import auto_parts as _auto_parts, doc as _doc, engine_harness as _engine_harness  # noqa: E402

register(Job("C06", "retry_backoff_does_not_block", _engine_harness(lambda: _C.retry_sibling(3, 2, False), _blocking_verdict),
             tier="quick", budget_s=300, parts=_auto_parts(_C.retry_sibling(3, 2, False)),
             doc=_doc("retry_sibling: a retrying node (delay 2) beside a sibling of the same depth",
                      ["durations", "per-attempt outcomes", "task-set order"],
                      {"oracle": "time.sleep is replaced by a recording stub during the run: any call from engine code on the "
                                 "loop thread (which would stall every sibling for the whole back-off) is a violation"})))


def _retry_yield_verdict(obs: Any, ref: Any, sym: Any) -> Any:
    """R and B have the same dependencies.  If R needs more than one attempt, B must have been started before R's last
    attempt ended (a retry loop that never yields would run R to completion first)."""
    from .. import verdicts as V

    if V.hang(obs):
        return V.hang(obs)
    first_start = {}
    last_end = {}
    n_body = {}
    for seq, kind, node, payload in obs.rc.log:
        if kind == "start" and node not in first_start:
            first_start[node] = seq
        if kind == "end":
            last_end[node] = seq
        if kind == "body":
            n_body[node] = n_body.get(node, 0) + 1
    if n_body.get("R", 0) >= 2 and "B" in first_start and first_start["B"] > last_end.get("R", 0):
        return "sibling_started_only_after_retrying_node_finished"
    if n_body.get("R", 0) >= 2 and "B" not in first_start:
        return "sibling_never_started"
    return V.blocking(obs)


def _retry_no_delay() -> Any:
    from ..spec import E1, OK, In, Node, Spec
    return Spec("retry_no_delay", [
        Node("A"),
        Node("R", (("a", In("A")),), kinds=(OK, E1), kind_slots=3, attempts=3, delay=None),
        Node("B", (("a", In("A")),)),
        Node("O", (("r", In("R")), ("b", In("B")))),
    ], "A", "O", dur_nodes=())


for mode in ("async", "inline"):
    def _f(mode: str = mode) -> Any:
        sp = _retry_no_delay()
        sp.by_name["R"].mode = mode
        return sp

    register(Job("C06", "retry_yields_between_attempts_" + mode,
                 _engine_harness(_f, _retry_yield_verdict, rev=False, param_orders=True),
                 tier="quick", budget_s=200,
                 parts=[dict(p, reversed_param_order=o) for p in _auto_parts(_f(), rev=False) for o in (0, 1)],
                 doc=_doc("retry_no_delay: R (attempts 3, no delay, %s) and B have the same dependency; R is declared first" % mode,
                          ["per-attempt outcomes of R", "caller input", "declared / reversed parameter order (launch order of R and B)"],
                          {"bounds": "durations 0: R's attempts fail before their first suspension point"})))
