"""C16 — declarations the engine cannot execute are rejected at build time.

Valid base program x symbolic defect kind x symbolic placement (how the defective declaration is reached:
Input / switch node / case / one-of candidate / recurrent destination / recurrent start / input node / output
node).  Assertion: exactly the corresponding error class, no DAG; defect 'none' => builds."""
from __future__ import annotations

from typing import Any, Dict, List, Optional, Tuple

from ..harness import untraced
from ..jobs import Job, register

DEFECTS = ("none", "not_a_class", "no_node_base", "no_process", "unannotated_param", "no_annotations_at_all",
           "generic_not_rebound", "dest_without_recurrent_protocol", "start_without_additional_data")
PLACEMENTS = ("input_mark", "switch_node", "case_node", "oneof_first", "oneof_second", "rec_dest", "rec_start",
              "input_node", "output_node")


def make() -> Any:
    def mk() -> Any:
        from ml_pipeline_engine.dag_builders.annotation import errors as BE
        from ml_pipeline_engine.dag_builders.annotation import marks as M
        from ml_pipeline_engine.dag_builders.annotation.builder import build_dag
        from ml_pipeline_engine.node import ProcessorBase, RecurrentProcessor
        from ml_pipeline_engine.node import errors as NE
        from ml_pipeline_engine.types import NodeBase

        EXPECT = {
            "not_a_class": BE.IncorrectTypeClass, "no_node_base": BE.IncorrectBaseClass,
            "no_process": NE.RunMethodExpectedError, "unannotated_param": BE.UndefinedParamAnnotation,
            "no_annotations_at_all": BE.UndefinedAnnotation, "generic_not_rebound": BE.NonRedefinedGenericTypeError,
            "dest_without_recurrent_protocol": BE.IncorrectRecurrentMixinClass,
            "start_without_additional_data": BE.IncorrectParamsRecurrentNode,
        }

        def build_program(defect: str, placement: str) -> Tuple[Any, Any]:
            """Returns (input class, output class) of a small program with the defect at the placement."""

            def good(name: str, ann: Dict[str, Any], rec: bool = True, ad: bool = True) -> type:
                def process(self: Any, **kwargs: Any) -> Any:
                    return 0
                a = dict(ann)
                if ad:
                    a["additional_data"] = Optional[Any]
                process.__annotations__ = a
                return type(name, (RecurrentProcessor if rec else ProcessorBase,), {"process": process, "name": name.lower()})

            N0 = good("N0", {})
            N1 = good("N1", {"a": M.Input(N0)})

            # the slot: a node depending on N1 (so that N1 -> slot is a path; needed for rec_start)
            slot_ann = {"a": M.Input(N1)}
            if placement == "input_node":
                slot_ann = {}
            if defect == "none" or placement in ("output_node",):
                slot: Any = good("Slot", slot_ann)
            elif defect == "not_a_class":
                slot = good("Slot", slot_ann)()  # an instance
            elif defect == "no_node_base":
                def process(self: Any, **kwargs: Any) -> Any:
                    return 0
                process.__annotations__ = dict(slot_ann)
                slot = type("Slot", (), {"process": process, "name": "slot"})
            elif defect == "no_process":
                slot = type("Slot", (NodeBase,), {"name": "slot", "process": None})
            elif defect == "unannotated_param":
                def process(self: Any, a, b) -> Any:  # noqa: ANN001
                    return 0
                process.__annotations__ = {"a": slot_ann.get("a", int)}
                slot = type("Slot", (RecurrentProcessor,), {"process": process, "name": "slot"})
            elif defect == "no_annotations_at_all":
                def process(self: Any, a) -> Any:  # noqa: ANN001
                    return 0
                process.__annotations__ = {}
                slot = type("Slot", (RecurrentProcessor,), {"process": process, "name": "slot"})
            elif defect == "generic_not_rebound":
                slot = good("Slot", {"a": M.InputGeneric(N1)})
            elif defect == "dest_without_recurrent_protocol":
                slot = good("Slot", slot_ann, rec=False)
            elif defect == "start_without_additional_data":
                slot = good("Slot", slot_ann, ad=False)
            else:
                raise AssertionError(defect)

            if placement == "input_node":
                mid = good("Mid", {"a": M.Input(slot)})
                out = good("Out", {"a": M.Input(mid)})
                return slot, out
            if placement == "output_node":
                # defect on the output node itself
                if defect == "not_a_class":
                    return N0, good("Out", {"a": M.Input(N1)})()
                if defect == "no_node_base":
                    def process(self: Any, **kwargs: Any) -> Any:
                        return 0
                    process.__annotations__ = {"a": M.Input(N1)}
                    return N0, type("Out", (), {"process": process, "name": "out"})
                if defect == "no_process":
                    return N0, type("Out", (NodeBase,), {"name": "out", "process": None})
                if defect == "unannotated_param":
                    def process(self: Any, a, b) -> Any:  # noqa: ANN001
                        return 0
                    process.__annotations__ = {"a": M.Input(N1)}
                    return N0, type("Out", (RecurrentProcessor,), {"process": process, "name": "out"})
                if defect == "no_annotations_at_all":
                    def process(self: Any, a) -> Any:  # noqa: ANN001
                        return 0
                    process.__annotations__ = {}
                    return N0, type("Out", (RecurrentProcessor,), {"process": process, "name": "out"})
                if defect == "generic_not_rebound":
                    return N0, good("Out", {"a": M.InputGeneric(N1)})
                return N0, good("Out", {"a": M.Input(N1)})
            other = good("Other", {"a": M.Input(N0)})
            if placement == "input_mark":
                out = good("Out", {"x": M.Input(slot)})
            elif placement == "switch_node":
                out = good("Out", {"x": M.SwitchCase(switch=slot, cases=[("a", N1), ("b", other)], name="s")})
            elif placement == "case_node":
                out = good("Out", {"x": M.SwitchCase(switch=other, cases=[("a", slot), ("b", N1)], name="s")})
            elif placement == "oneof_first":
                out = good("Out", {"x": M.InputOneOf([slot, other])})
            elif placement == "oneof_second":
                out = good("Out", {"x": M.InputOneOf([other, slot])})
            elif placement == "rec_dest":
                out = good("Out", {"x": M.RecurrentSubGraph(start_node=N1, dest_node=slot, max_iterations=2)})
            elif placement == "rec_start":
                dest = good("Dest", {"a": M.Input(slot)})
                out = good("Out", {"x": M.RecurrentSubGraph(start_node=slot, dest_node=dest, max_iterations=2)})
            else:
                raise AssertionError(placement)
            return N0, out

        def h(sym: Any) -> Tuple[str, Dict[str, Any]]:
            defect = DEFECTS[sym.choice("defect", len(DEFECTS))]
            placement = PLACEMENTS[sym.choice("placement", len(PLACEMENTS))]
            # defects that only exist in one role
            if defect == "dest_without_recurrent_protocol" and placement != "rec_dest":
                sym.assume(False)
            if defect == "start_without_additional_data" and placement != "rec_start":
                sym.assume(False)
            if placement == "output_node" and defect in ("dest_without_recurrent_protocol", "start_without_additional_data"):
                sym.assume(False)
            if placement == "input_node" and defect == "generic_not_rebound":
                sym.assume(False)  # the slot has no dependency to mark generic when it is the input node
            label = None
            with untraced():
                inp, out = build_program(defect, placement)
                try:
                    dag = build_dag(input_node=inp, output_node=out)
                    got: Any = None
                except Exception as e:  # noqa: BLE001
                    dag = None
                    got = e
            if defect == "none":
                if dag is None:
                    label = "valid_program_rejected:%s" % type(got).__name__
            else:
                want = EXPECT[defect]
                if dag is not None:
                    label = "defect_accepted:%s@%s" % (defect, placement)
                elif type(got) is not want:
                    label = "wrong_error:%s@%s:%s_instead_of_%s" % (defect, placement, type(got).__name__, want.__name__)
            info = {"digest": [label, defect, placement], "goals": ["defect:" + defect, "placement:" + placement],
                    "summary": {"defect": defect, "placement": placement,
                                "result": "DAG" if dag is not None else type(got).__name__}}
            return (label or "ok"), info

        return h

    return mk


def make_special() -> Any:
    """Cases that need two cooperating declarations: a default-valued un-annotated parameter, two recurrent
    sub-graphs sharing one start node, and a defective declaration whose node id equals that of a well-formed twin."""
    def mk() -> Any:
        from ml_pipeline_engine.dag_builders.annotation import errors as BE
        from ml_pipeline_engine.dag_builders.annotation import marks as M
        from ml_pipeline_engine.dag_builders.annotation.builder import build_dag
        from ml_pipeline_engine.node import RecurrentProcessor, ProcessorBase, build_node

        CASES = ("param_with_default_unannotated", "two_recs_same_start_first_dest_defective",
                 "two_recs_same_start_second_dest_defective", "two_recs_same_start_valid",
                 "raw_generic_twin_of_rebound_first", "raw_generic_twin_of_rebound_second",
                 "instance_twin_of_class_first", "instance_twin_of_class_second", "param_with_default_annotated",
                 "kwonly_param_unannotated", "kwonly_param_annotated",
                 "defective_input_node_reached_only_implicitly_no_base", "defective_input_node_reached_only_implicitly_unannotated",
                 "input_node_reached_only_implicitly_valid",
                 "variadic_kw_param_unannotated", "variadic_pos_param_unannotated", "variadic_params_annotated",
                 "variadic_params_conventional_names")

        def good(name: str, ann: Dict[str, Any], rec: bool = True, ad: bool = True) -> type:
            def process(self: Any, **kwargs: Any) -> Any:
                return 0
            a = dict(ann)
            if ad:
                a["additional_data"] = Optional[Any]
            process.__annotations__ = a
            return type(name, (RecurrentProcessor if rec else ProcessorBase,), {"process": process, "name": name.lower()})

        def h(sym: Any) -> Tuple[str, Dict[str, Any]]:
            case = CASES[sym.choice("case", len(CASES))]
            order = sym.choice("param_order", 2)
            with untraced():
                N0 = good("N0", {})
                N1 = good("N1", {"a": M.Input(N0)})
                want: Any = None
                if case.startswith("param_with_default"):
                    def process(self: Any, a, factor=2) -> Any:  # noqa: ANN001
                        return 0
                    process.__annotations__ = {"a": M.Input(N1)}
                    if case.endswith("_annotated"):
                        process.__annotations__["factor"] = int
                    else:
                        want = BE.UndefinedParamAnnotation
                    mid = type("Mid", (RecurrentProcessor,), {"process": process, "name": "mid"})
                    out = good("Out", {"x": M.Input(mid)})
                elif case.startswith("kwonly_param"):
                    def process(self: Any, a, *, scale) -> Any:  # noqa: ANN001
                        return 0
                    process.__annotations__ = {"a": M.Input(N1)}
                    if case.endswith("_annotated"):
                        process.__annotations__["scale"] = int
                    else:
                        want = BE.UndefinedParamAnnotation
                    mid = type("Mid", (RecurrentProcessor,), {"process": process, "name": "mid"})
                    out = good("Out", {"x": M.Input(mid)})
                elif case.startswith("variadic_"):
                    # *extra / **options are parameters like any other: un-annotated they are a defect; the conventional
                    # *args / **kwargs are exempt by name
                    if case == "variadic_kw_param_unannotated":
                        def process(self: Any, a, **options) -> Any:  # noqa: ANN001, ANN003
                            return 0
                        want = BE.UndefinedParamAnnotation
                    elif case == "variadic_pos_param_unannotated":
                        def process(self: Any, a, *extra) -> Any:  # noqa: ANN001, ANN002
                            return 0
                        want = BE.UndefinedParamAnnotation
                    elif case == "variadic_params_annotated":
                        def process(self: Any, a, *extra, **options) -> Any:  # noqa: ANN001, ANN002, ANN003
                            return 0
                    else:
                        def process(self: Any, a, *args, **kwargs) -> Any:  # noqa: ANN001, ANN002, ANN003
                            return 0
                    process.__annotations__ = {"a": M.Input(N1)}
                    if case == "variadic_params_annotated":
                        process.__annotations__.update({"extra": Any, "options": Any})
                    mid = type("Mid", (RecurrentProcessor,), {"process": process, "name": "mid"})
                    out = good("Out", {"x": M.Input(mid)})
                elif "input_node_reached_only_implicitly" in case:
                    # no node names the input node in a mark: it is reached through the implicit link of mark-less leaves only
                    if case.endswith("_no_base"):
                        def process(self: Any, **kwargs: Any) -> Any:
                            return 0
                        N0 = type("N0", (), {"process": process, "name": "n0"})
                        want = BE.IncorrectBaseClass
                    elif case.endswith("_unannotated"):
                        def process(self: Any, a, b) -> Any:  # noqa: ANN001
                            return 0
                        process.__annotations__ = {"a": int}
                        N0 = type("N0", (RecurrentProcessor,), {"process": process, "name": "n0"})
                        want = BE.UndefinedParamAnnotation
                    leaf = good("Leaf", {}, ad=False)
                    leaf2 = good("Leaf2", {}, ad=False)
                    marks = [("x", M.Input(leaf)), ("y", M.Input(leaf2))]
                    if order:
                        marks.reverse()
                    out = good("Out", dict(marks))
                elif case.startswith("two_recs_same_start"):
                    bad_first = case.endswith("first_dest_defective")
                    bad_second = case.endswith("second_dest_defective")
                    d1 = good("D1", {"a": M.Input(N1)}, rec=not bad_first)
                    d2 = good("D2", {"a": M.Input(N1)}, rec=not bad_second)
                    marks = [("x", M.RecurrentSubGraph(start_node=N1, dest_node=d1, max_iterations=2)),
                             ("y", M.RecurrentSubGraph(start_node=N1, dest_node=d2, max_iterations=2))]
                    if order:
                        marks.reverse()
                    out = good("Out", dict(marks))
                    if bad_first or bad_second:
                        want = BE.IncorrectRecurrentMixinClass
                elif case.startswith("raw_generic_twin"):
                    G = good("G", {"a": M.InputGeneric(N0)})
                    R = build_node(G, class_name="ReboundG", a=M.Input(N1))  # keeps G's name => same node id
                    marks = [("x", M.Input(R)), ("y", M.Input(G))]
                    if case.endswith("second"):
                        marks.reverse()
                    out = good("Out", dict(marks))
                    want = BE.NonRedefinedGenericTypeError
                else:
                    Cls = good("Cls", {"a": M.Input(N1)})
                    marks = [("x", M.Input(Cls)), ("y", M.Input(Cls()))]
                    if case.endswith("second"):
                        marks.reverse()
                    out = good("Out", dict(marks))
                    want = BE.IncorrectTypeClass
                try:
                    dag = build_dag(input_node=N0, output_node=out)
                    got: Any = None
                except Exception as e:  # noqa: BLE001
                    dag, got = None, e
            label = None
            if want is None:
                if dag is None:
                    label = "valid_program_rejected:%s:%s" % (case, type(got).__name__)
            elif dag is not None:
                label = "defect_accepted:%s:order%d" % (case, order)
            elif type(got) is not want:
                label = "wrong_error:%s:%s_instead_of_%s" % (case, type(got).__name__, want.__name__)
            info = {"digest": [label, case, order], "goals": ["case:" + case],
                    "summary": {"case": case, "param_order": order, "result": "DAG" if dag is not None else type(got).__name__}}
            return (label or "ok"), info

        return h

    return mk


def make_build_node() -> Any:
    def mk() -> Any:
        from ml_pipeline_engine.dag_builders.annotation import marks as M
        from ml_pipeline_engine.dag_builders.annotation.builder import build_dag
        from ml_pipeline_engine.node import ProcessorBase, build_node
        from ml_pipeline_engine.node import errors as NE
        from ..fam_nodes import F0, GenericBase

        KINDS = ("ok", "instance", "function", "no_process")

        def h(sym: Any) -> Tuple[str, Dict[str, Any]]:
            kind = KINDS[sym.choice("build_node_arg", len(KINDS))]
            label = None
            with untraced():
                if kind == "ok":
                    arg: Any = GenericBase
                elif kind == "instance":
                    arg = GenericBase()
                elif kind == "function":
                    arg = (lambda **kw: 0)
                else:
                    arg = type("NoProc", (), {"name": "noproc", "process": None})
                try:
                    node = build_node(arg, node_name="g1", class_name="G1", a=M.Input(F0))
                    err: Any = None
                except Exception as e:  # noqa: BLE001
                    node, err = None, e
                if kind == "ok":
                    if err is not None:
                        label = "valid_build_node_rejected:%s" % type(err).__name__
                    else:
                        try:
                            build_dag(input_node=F0, output_node=node)
                        except Exception as e:  # noqa: BLE001
                            label = "generic_node_does_not_build:%s" % type(e).__name__
                elif kind in ("instance", "function"):
                    if type(err) is not NE.ClassExpectedError:
                        label = "wrong_error:%s:%s" % (kind, type(err).__name__)
                else:
                    if type(err) is not NE.RunMethodExpectedError:
                        label = "wrong_error:%s:%s" % (kind, type(err).__name__)
            info = {"digest": [label, kind], "goals": ["kind:" + kind], "summary": {"build_node_arg": kind}}
            return (label or "ok"), info

        return h

    return mk


FUN = ["ml_pipeline_engine/dag_builders/annotation/builder.py::validate_node/_check_base_class/_check_annotations/"
       "_get_input_marks_map/_validate_recurrent_node_base_classes/_validate_recurrent_nodes_params/build",
       "ml_pipeline_engine/node/node.py::get_callable_run_method, build_node"]
register(Job("C16", "defect_x_placement", make(), tier="quick", budget_s=300,
             goals=tuple("defect:" + d for d in DEFECTS) + tuple("placement:" + p for p in PLACEMENTS),
             doc={"template": "base program N0 -> N1 -> slot -> Out; defect on the slot / input / output node",
                  "symbolic": ["defect kind (9 incl. none)", "placement (9)"], "functions": FUN,
                  "bounds": "one defect per program; 4-6 node classes",
                  "assumptions": ["finite-domain case split by z3; build_dag runs natively on each concrete case"]}))
register(Job("C16", "cooperating_declarations", make_special(), tier="quick", budget_s=200,
             goals=("case:param_with_default_unannotated", "case:two_recs_same_start_first_dest_defective",
                    "case:raw_generic_twin_of_rebound_first", "case:instance_twin_of_class_second", "case:two_recs_same_start_valid",
                    "case:kwonly_param_unannotated", "case:defective_input_node_reached_only_implicitly_no_base",
                    "case:input_node_reached_only_implicitly_valid", "case:variadic_kw_param_unannotated",
                    "case:variadic_pos_param_unannotated", "case:variadic_params_annotated",
                    "case:variadic_params_conventional_names"),
             doc={"template": "9 declaration shapes that need two cooperating declarations x 2 parameter orders",
                  "symbolic": ["case", "parameter order of the output node"], "functions": FUN, "bounds": "28 cases",
                  "assumptions": ["finite-domain case split by z3; build_dag runs natively on each concrete case"]}))
register(Job("C16", "build_node_checks", make_build_node(), tier="quick", budget_s=120,
             goals=("kind:ok", "kind:instance", "kind:function", "kind:no_process"),
             doc={"template": "build_node(arg, ...) with arg in {class, instance, function, class without process}",
                  "symbolic": ["kind of argument"], "functions": FUN, "bounds": "4 cases"}))
