"""C01 — run outcome equals the dataflow semantics and is schedule-independent."""
from __future__ import annotations

from typing import Any, Optional

from .. import catalogue as C
from .. import verdicts as V
from ..harness import Cfg, Obs, run_engine
from ..jobs import Job, register
from ..refsem import RefResult
from .common import auto_parts, doc, engine_harness


def verdict(obs: Obs, ref: RefResult, sym: Any, use_ref: bool = True) -> Optional[str]:
    if use_ref:
        lab = V.outcome(obs, ref)
        if lab:
            return lab
    if V.hang(obs):
        return None
    # schedule independence, differentially: same behaviour under the canonical schedule (durations 0)
    obs0 = run_engine(obs.rc.spec, obs.rc.beh.zeroed(), Cfg(rev_taskset=False))
    if V.hang(obs0):
        return None
    if obs0.kind != obs.kind:
        return "schedule_dependent_kind:%s/%s" % (obs.kind, obs0.kind)
    if obs.kind == "done":
        if (obs.error is None) != (obs0.error is None):
            return "schedule_dependent_failure"
        if obs.error is None and not V.same(obs.value, obs0.value):
            return "schedule_dependent_value"
        if obs.error is not None and type(obs.error) is not type(obs0.error):
            # several concurrently failing required nodes: which one surfaces may depend on the schedule
            # only if both are admissible root causes (checked by V.outcome on each run separately)
            lab0 = V.outcome(obs0, ref)
            if lab0:
                return "canonical_schedule:" + lab0
    return None


SYMS = ["caller input x", "duration of every node", "outcome kind of fallible nodes", "switch labels",
        "recurrent want", "task-set order"]

QUICK = [
    ("chain", C.chain, ()), ("rhombus", lambda: C.rhombus(fall=True), ("ref_value", "ref_fail")),
    ("fan", C.fan, ()), ("mixed_modes", C.mixed_modes, ()),
    ("switch_basic", lambda: C.switch_basic(fall=True), ("case:X", "case:Y")),
    ("switch_nested", C.switch_nested, ("case:P", "case:Q", "case:Y")),
    ("switch_shared_case", C.switch_shared_case, ()),
    ("oneof_basic", C.oneof_basic, ("oneof_first", "oneof_fallback", "oneof_all_failed")),
    ("oneof_depth2", lambda: C.oneof_depth(2), ("oneof_fallback",)),
    ("oneof_nested", C.oneof_nested, ("oneof_fallback", "oneof_all_failed")),
    ("oneof_sibling", C.oneof_sibling, ("oneof_fallback",)),
    ("oneof_chained", C.oneof_chained, ("oneof_fallback",)),
    ("oneof_shared_dep", C.oneof_shared_dep, ()),
    ("rec_simple", lambda: C.rec_simple(2, False, True), ("reiterated", "ref_fail_rec")),
    ("rec_simple_default", lambda: C.rec_simple(1, True), ("reiterated", "default_used")),
    ("rec_inner_start", C.rec_inner_start, ("reiterated",)),
    ("rec_with_switch", lambda: C.rec_with_switch(1), ("reiterated",)),
    ("rec_with_oneof", C.rec_with_oneof, ("reiterated",)),
    ("rec_in_oneof", C.rec_in_oneof, ("reiterated",)),
    ("rec_nested", C.rec_nested, ("reiterated",)),
    ("retry_sibling", C.retry_sibling, ()),
    ("retry_chain", C.retry_chain, ("default_used",)),
    ("retry_sibling_default", lambda: C.retry_sibling(3, 2, True), ("default_used",)),
    ("rec_side_input", C.rec_side_input, ("reiterated",)),
]

# Readers OUTSIDE a recurrent subgraph: the documentation does not say which iteration's value they see, so the
# reference comparison is not asserted for these templates (interpretation question, DESIGN §2 C01); what C01 does
# state - the outcome is the same under every schedule - is asserted differentially.
def verdict_differential_only(obs: Obs, ref: RefResult, sym: Any) -> Optional[str]:
    return verdict(obs, ref, sym, use_ref=False)


for name, f, goals in [("rec_outside_reader", C.rec_outside_reader, ("reiterated",)),
                       ("rec_outside_reader_slow", C.rec_outside_reader_slow, ("reiterated",)),
                       ("rec_two_scopes", C.rec_two_scopes, ("reiterated",))]:
    register(Job("C01", name, engine_harness(f, verdict_differential_only,
                                             beh_kw={"dur_nodes": {"S", "M", "D", "Q3", "R", "W", "X", "Y"}}),
                 tier="quick", budget_s=300,
                 goals=tuple(goals), parts=auto_parts(f()), doc=doc(name, SYMS, {"oracle": "differential vs canonical schedule only"})))

for name, f, goals in QUICK:
    register(Job("C01", name, engine_harness(f, verdict), tier="quick", budget_s=300, goals=tuple(goals),
                 parts=auto_parts(f()),
                 doc=doc(name, SYMS)))
