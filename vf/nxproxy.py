"""Run networkx on concrete graphs with CrossHair tracing suspended (DESIGN §1.5 item 1).

Under tracing CrossHair replaces calls to dict()/set()/... also inside third-party
code; networkx then builds corrupt graphs (probed).  All graph inputs are concrete
on every path, so executing networkx natively changes nothing semantically.
"""
from __future__ import annotations

import types
from typing import Any

import networkx as _nx
from crosshair.tracers import NoTracing, is_tracing


def _untraced(fn: Any) -> Any:
    def call(*a: Any, **kw: Any) -> Any:
        if is_tracing():
            with NoTracing():
                r = fn(*a, **kw)
                if isinstance(r, types.GeneratorType):
                    r = list(r)
                return _wrap_graph(r)
        r = fn(*a, **kw)
        if isinstance(r, types.GeneratorType):
            r = list(r)
        return _wrap_graph(r)

    call.__name__ = getattr(fn, "__name__", "nxcall")
    return call


def _wrap_graph(r: Any) -> Any:
    """Views returned by networkx get an instance-level untraced ``subgraph``."""
    if isinstance(r, _nx.Graph) and "subgraph" not in r.__dict__:
        try:
            r.__dict__["subgraph"] = _untraced(type(r).subgraph.__get__(r))
        except Exception:  # noqa: BLE001
            pass
    return r


class NxProxy(types.ModuleType):
    def __init__(self) -> None:
        super().__init__("networkx_untraced_proxy")

    def __getattr__(self, name: str) -> Any:
        v = getattr(_nx, name)
        if isinstance(v, type) or isinstance(v, types.ModuleType) or not callable(v):
            return v
        return _untraced(v)


def install() -> None:
    """Rebind the ``nx`` name inside the engine modules (checking process only)."""
    import ml_pipeline_engine.dag.graph as g
    import ml_pipeline_engine.dag.manager as m

    proxy = NxProxy()
    if not isinstance(getattr(m, "nx", None), NxProxy):
        m.nx = proxy
    if not isinstance(getattr(g, "nx", None), NxProxy):
        g.nx = proxy


def wrap_dag_graph(graph: Any) -> Any:
    return _wrap_graph(graph)
