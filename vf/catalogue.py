"""Template catalogue (DESIGN §1.3): each template is a function returning a fresh Spec."""
from __future__ import annotations

from typing import Callable, Dict

from .spec import (BASE_EXC, E1, E2, OK, RET_NONE, RET_ZERO, In, Node, OneOf, Rec, Spec, Sw)

F = (OK, E1)  # fallible


def chain() -> Spec:
    return Spec("chain", [Node("A"), Node("B", (("a", In("A")),)), Node("C", (("b", In("B")),))], "A", "C")


def rhombus(fall: bool = False) -> Spec:
    k = F if fall else (OK,)
    return Spec("rhombus", [
        Node("A"),
        Node("B", (("a", In("A")),), kinds=k),
        Node("C", (("a", In("A")),), kinds=k),
        Node("D", (("b", In("B")), ("c", In("C")))),
    ], "A", "D")


def two_chains() -> Spec:
    """Two independent fallible nodes, each with a dependant that becomes ready when it succeeds: when both finish in the
    same loop iteration, the success of one starts new work before the run loop has looked at the failure of the other."""
    return Spec("two_chains", [
        Node("A"),
        Node("B", (("a", In("A")),), kinds=F), Node("B2", (("b", In("B")),)),
        Node("C", (("a", In("A")),), kinds=F), Node("C2", (("c", In("C")),)),
        Node("D", (("b", In("B2")), ("c", In("C2")))),
    ], "A", "D", dur_nodes=("B", "C"))


def fan() -> Spec:
    """Input + 3 parallel mark-less nodes (implicit input link) + join."""
    return Spec("fan", [
        Node("A"), Node("P"), Node("Q", (("a", In("A")),)), Node("R", (("a", In("A")),)),
        Node("J", (("p", In("P")), ("q", In("Q")), ("r", In("R")))),
    ], "A", "J")


def mixed_modes() -> Spec:
    return Spec("mixed_modes", [
        Node("A", mode="inline"),
        Node("B", (("a", In("A")),), mode="thread"),
        Node("C", (("a", In("A")),), mode="process"),
        Node("D", (("b", In("B")), ("c", In("C"))), mode="async"),
    ], "A", "D")


# ------------------------------------------------------------------ switch ---
def switch_basic(unknown: bool = False, fall: bool = False) -> Spec:
    k = F if fall else (OK,)
    return Spec("switch_basic", [
        Node("A"),
        Node("S", (("a", In("A")),), labels=("l1", "l2"), unknown_label=unknown, none_label=unknown),
        Node("X", (("a", In("A")),), kinds=k),
        Node("Y", (("a", In("A")),), kinds=k),
        Node("O", (("v", Sw("S", (("l1", "X"), ("l2", "Y")), "sw")), ("a", In("A")))),
    ], "A", "O")


def switch_deep(unknown: bool = False) -> Spec:
    """Cases with their own private upstream nodes (must stay un-executed when not selected)."""
    return Spec("switch_deep", [
        Node("A"),
        Node("S", (("a", In("A")),), labels=("l1", "l2"), unknown_label=unknown),
        Node("X0", (("a", In("A")),), kinds=F), Node("X", (("x0", In("X0")),)),
        Node("Y0", (("a", In("A")),), kinds=F), Node("Y", (("y0", In("Y0")),)),
        Node("O", (("v", Sw("S", (("l1", "X"), ("l2", "Y")), "sw")),)),
    ], "A", "O")


def switch_nested() -> Spec:
    return Spec("switch_nested", [
        Node("A"),
        Node("S1", (("a", In("A")),), labels=("l1", "l2")),
        Node("S2", (("a", In("A")),), labels=("m1", "m2")),
        Node("P", (("a", In("A")),)), Node("Q", (("a", In("A")),)),
        Node("X", (("v", Sw("S2", (("m1", "P"), ("m2", "Q")), "inner")),)),
        Node("Y", (("a", In("A")),)),
        Node("O", (("v", Sw("S1", (("l1", "X"), ("l2", "Y")), "outer")),)),
    ], "A", "O")


def switch_shared_case() -> Spec:
    """Two switches sharing a case node and the decider (test_concurrent_switch shape)."""
    return Spec("switch_shared_case", [
        Node("A"),
        Node("S", (("a", In("A")),), labels=("l1", "l2")),
        Node("X", (("a", In("A")),)), Node("Y", (("a", In("A")),)), Node("Z", (("a", In("A")),)),
        Node("U", (("v", Sw("S", (("l1", "X"), ("l2", "Y")), "sw1")),)),
        Node("V", (("v", Sw("S", (("l1", "X"), ("l2", "Z")), "sw2")),)),
        Node("O", (("u", In("U")), ("v", In("V")))),
    ], "A", "O")


def switch_two_deciders(deep: int = 0) -> Spec:
    """Two switches with DIFFERENT deciders and different consumers share the case X: the second switch may resolve
    while X is still in flight for the first one (its consumer must then be woken when X finishes).  In the deep
    variants one of the consumers (1: U, 2: V) also waits for a side chain Q1->Q2->Q3, so the manager's launch loop is
    already parked on the OTHER switch's consumer when that happens (both variants: the launch order of the two
    switches follows the declaration order)."""
    nodes = [
        Node("A"),
        Node("S1", (("a", In("A")),), labels=("l1", "l2")),
        Node("S2", (("a", In("A")),), labels=("l1", "l2")),
        Node("X", (("a", In("A")),)), Node("Y", (("a", In("A")),)), Node("Z", (("a", In("A")),)),
    ]
    if deep:
        nodes += [Node("Q1", (("a", In("A")),)), Node("Q2", (("q", In("Q1")),)), Node("Q3", (("q", In("Q2")),))]
    up = (("v", Sw("S1", (("l1", "X"), ("l2", "Y")), "sw1")),) + ((("q", In("Q3")),) if deep == 1 else ())
    vp = (("v", Sw("S2", (("l1", "X"), ("l2", "Z")), "sw2")),) + ((("q", In("Q3")),) if deep == 2 else ())
    nodes += [Node("U", up), Node("V", vp), Node("O", (("u", In("U")), ("v", In("V"))))]
    return Spec("switch_two_deciders" + ("_deep%d" % deep if deep else ""), nodes, "A", "O", dur_nodes=("S1", "S2", "X"))


def switch_unnamed_same_decider() -> Spec:
    """Two UNNAMED switch declarations (random synthetic ids) driven by the same decider, with overlapping labels."""
    return Spec("switch_unnamed_same_decider", [
        Node("A"),
        Node("S", (("a", In("A")),), labels=("l1", "l2")),
        Node("X", (("a", In("A")),)), Node("Y", (("a", In("A")),)),
        Node("P", (("a", In("A")),)), Node("Q", (("a", In("A")),)),
        Node("U", (("v", Sw("S", (("l1", "X"), ("l2", "Y")), "?unnamed1")),)),
        Node("V", (("v", Sw("S", (("l1", "P"), ("l2", "Q")), "?unnamed2")),)),
        Node("O", (("u", In("U")), ("v", In("V")))),
    ], "A", "O", dur_nodes=("S", "X"))


def switch_case_also_input() -> Spec:
    """A case node that another node also consumes directly."""
    return Spec("switch_case_also_input", [
        Node("A"),
        Node("S", (("a", In("A")),), labels=("l1", "l2")),
        Node("X", (("a", In("A")),)), Node("Y", (("a", In("A")),)),
        Node("O", (("v", Sw("S", (("l1", "X"), ("l2", "Y")), "sw")), ("x", In("X")))),
    ], "A", "O")


# ------------------------------------------------------------------ one-of ---
def oneof_basic(kinds=(OK, E1)) -> Spec:
    return Spec("oneof_basic", [
        Node("A"),
        Node("C1", (("a", In("A")),), kinds=kinds),
        Node("C2", (("a", In("A")),), kinds=kinds),
        Node("O", (("v", OneOf(("C1", "C2"))),)),
    ], "A", "O")


def oneof_depth(depth: int = 2) -> Spec:
    """First candidate on top of a chain of `depth` fallible private nodes; second candidate plain."""
    nodes = [Node("A")]
    prev = "A"
    for i in range(depth):
        nodes.append(Node("P%d" % i, (("p", In(prev)),), kinds=F))
        prev = "P%d" % i
    nodes.append(Node("C1", (("p", In(prev)),), kinds=F))
    nodes.append(Node("C2", (("a", In("A")),), kinds=F))
    nodes.append(Node("O", (("v", OneOf(("C1", "C2"))),)))
    return Spec("oneof_depth%d" % depth, nodes, "A", "O")


def oneof_three() -> Spec:
    return Spec("oneof_three", [
        Node("A"),
        Node("C1", (("a", In("A")),), kinds=F),
        Node("C2", (("a", In("A")),), kinds=F),
        Node("C3", (("a", In("A")),), kinds=F),
        Node("O", (("v", OneOf(("C1", "C2", "C3"))),)),
    ], "A", "O")


def oneof_nested() -> Spec:
    return Spec("oneof_nested", [
        Node("A"),
        Node("I1", (("a", In("A")),), kinds=F),
        Node("I2", (("a", In("A")),), kinds=F),
        Node("C1", (("v", OneOf(("I1", "I2"))),), kinds=F),
        Node("C2", (("a", In("A")),), kinds=F),
        Node("O", (("v", OneOf(("C1", "C2"))),)),
    ], "A", "O")


def oneof_sibling() -> Spec:
    return Spec("oneof_sibling", [
        Node("A"),
        Node("C1", (("a", In("A")),), kinds=F), Node("C2", (("a", In("A")),)),
        Node("D1", (("a", In("A")),), kinds=F), Node("D2", (("a", In("A")),)),
        Node("O", (("v", OneOf(("C1", "C2"))), ("w", OneOf(("D1", "D2"))))),
    ], "A", "O")


def oneof_chained() -> Spec:
    """A candidate of the second one-of depends on the consumer of the first one-of."""
    return Spec("oneof_chained", [
        Node("A"),
        Node("C1", (("a", In("A")),), kinds=F), Node("C2", (("a", In("A")),)),
        Node("M", (("v", OneOf(("C1", "C2"))),)),
        Node("D1", (("m", In("M")),), kinds=F), Node("D2", (("a", In("A")),)),
        Node("O", (("w", OneOf(("D1", "D2"))),)),
    ], "A", "O")


def oneof_with_switch() -> Spec:
    """Switch inside a one-of candidate's sub-pipeline, with fallible cases."""
    return Spec("oneof_with_switch", [
        Node("A"),
        Node("S", (("a", In("A")),), labels=("l1", "l2")),
        Node("X", (("a", In("A")),), kinds=F), Node("Y", (("a", In("A")),), kinds=F),
        Node("C1", (("v", Sw("S", (("l1", "X"), ("l2", "Y")), "sw")),)),
        Node("C2", (("a", In("A")),)),
        Node("O", (("v", OneOf(("C1", "C2"))),)),
    ], "A", "O")


def oneof_with_switch_deep() -> Spec:
    """Switch inside a one-of candidate; the failure sits ABOVE the selected case (X0 -> X)."""
    return Spec("oneof_with_switch_deep", [
        Node("A"),
        Node("S", (("a", In("A")),), labels=("l1", "l2")),
        Node("X0", (("a", In("A")),), kinds=F), Node("X", (("x0", In("X0")),)),
        Node("Y", (("a", In("A")),), kinds=F),
        Node("C1", (("v", Sw("S", (("l1", "X"), ("l2", "Y")), "sw")),)),
        Node("C2", (("a", In("A")),)),
        Node("O", (("v", OneOf(("C1", "C2"))),)),
    ], "A", "O")


def oneof_shared_dep() -> Spec:
    """A fallible node needed by a one-of candidate and by the main pipeline."""
    return Spec("oneof_shared_dep", [
        Node("A"),
        Node("H", (("a", In("A")),), kinds=F),
        Node("C1", (("h", In("H")),)), Node("C2", (("a", In("A")),)),
        Node("O", (("v", OneOf(("C1", "C2"))), ("h", In("H")))),
    ], "A", "O")


def oneof_diamond_shared() -> Spec:
    """As oneof_diamond, but the fallback candidate C2 also needs S: when the first candidate fails while S is still
    in flight (or being saved), the work done for S must remain usable by C2."""
    return Spec("oneof_diamond_shared", [
        Node("A"),
        Node("F", (("a", In("A")),), kinds=F),
        Node("S", (("a", In("A")),)),
        Node("M", (("f", In("F")),)),
        Node("C1", (("m", In("M")), ("s", In("S")))),
        Node("C2", (("s", In("S")),)),
        Node("O", (("v", OneOf(("C1", "C2"))),)),
    ], "A", "O", dur_nodes=("F", "S"))


def oneof_shared_failing_ancestor() -> Spec:
    """The first two candidates consume the same fallible node H, the third is healthy (and may be slow): when H
    fails, candidates 1 and 2 fail without being invoked (H's failure must stay visible to the second candidate's
    sub-pipeline although H is already 'processed') and the third one wins."""
    return Spec("oneof_shared_failing_ancestor", [
        Node("A"),
        Node("H", (("a", In("A")),), kinds=F),
        Node("C1", (("h", In("H")),)), Node("C2", (("h", In("H")),)), Node("C3", (("a", In("A")),)),
        Node("O", (("v", OneOf(("C1", "C2", "C3"))),)),
    ], "A", "O", dur_nodes=("H", "C2", "C3"))


def oneof_with_switch_unknown() -> Spec:
    """Switch inside a one-of candidate whose decider may return a label without a case: the candidate fails,
    the next one is used."""
    return Spec("oneof_with_switch_unknown", [
        Node("A"),
        Node("S", (("a", In("A")),), labels=("l1", "l2"), unknown_label=True),
        Node("X", (("a", In("A")),)), Node("Y", (("a", In("A")),)),
        Node("C1", (("v", Sw("S", (("l1", "X"), ("l2", "Y")), "sw")),)),
        Node("C2", (("a", In("A")),)),
        Node("O", (("v", OneOf(("C1", "C2"))),)),
    ], "A", "O")


def oneof_siblings_shared() -> Spec:
    """First candidate joins a fallible node Fa and a healthy node Sb DIRECTLY; the fallback candidate needs Sb too.
    Sb must be allowed to finish when Fa fails first."""
    return Spec("oneof_siblings_shared", [
        Node("A"),
        Node("Fa", (("a", In("A")),), kinds=F),
        Node("Sb", (("a", In("A")),)),
        Node("C1", (("x", In("Fa")), ("y", In("Sb")))),
        Node("C2", (("y", In("Sb")),)),
        Node("O", (("v", OneOf(("C1", "C2"))),)),
    ], "A", "O", dur_nodes=("Fa", "Sb"))


def oneof_shared_inflight() -> Spec:
    """A (slow, healthy) node Sh is needed by the first candidate's sub-pipeline AND by the main pipeline; the
    candidate fails at an intermediate node (Fl -> Mid -> C1) while Sh may still be in flight."""
    return Spec("oneof_shared_inflight", [
        Node("A"),
        Node("Sh", (("a", In("A")),)),
        Node("Fl", (("a", In("A")),), kinds=F),
        Node("Mid", (("f", In("Fl")),)),
        Node("C1", (("m", In("Mid")), ("s", In("Sh")))),
        Node("C2", (("a", In("A")),)),
        Node("O", (("v", OneOf(("C1", "C2"))), ("s", In("Sh")))),
    ], "A", "O", dur_nodes=("Sh", "Fl", "Mid"))


def oneof_reached_twice() -> Spec:
    """The consumer M of an inner one-of is reached by both candidates of an outer one-of: the second candidate's
    sub-pipeline is built after the inner one-of was resolved and must not pull in its untried candidate C2."""
    return Spec("oneof_reached_twice", [
        Node("A"),
        Node("C1", (("a", In("A")),), kinds=F), Node("C2", (("a", In("A")),), kinds=F),
        Node("M", (("v", OneOf(("C1", "C2"))),)),
        Node("P", (("m", In("M")),), kinds=F), Node("Q", (("m", In("M")),)),
        Node("O", (("v", OneOf(("P", "Q"))),)),
    ], "A", "O", dur_nodes=("C1", "P"))


def oneof_reached_via_nested() -> Spec:
    """outer one-of [P, Q]; P consumes Feat = one-of[Ch, Ex]; Q consumes an inner one-of [D, E2] whose first candidate
    D consumes Feat again.  D's sub-pipeline is built after Feat was resolved by Ch: the untried Ex must stay out."""
    return Spec("oneof_reached_via_nested", [
        Node("A"),
        Node("Ch", (("a", In("A")),)), Node("Ex", (("a", In("A")),), kinds=F),
        Node("Feat", (("v", OneOf(("Ch", "Ex"))),)),
        Node("P", (("f", In("Feat")),), kinds=F),
        Node("D", (("f", In("Feat")),)), Node("E2", (("a", In("A")),)),
        Node("N", (("v", OneOf(("D", "E2"))),)),
        Node("Q", (("n", In("N")),)),
        Node("O", (("v", OneOf(("P", "Q"))),)),
    ], "A", "O", dur_nodes=("Ch", "P"))


def retry_attempts_zero() -> Spec:
    """attempts = 0 is 'unset' (NodeRetryPolicy: attempts or 1): exactly one invocation."""
    return Spec("retry_attempts_zero", [
        Node("A"),
        Node("R", (("a", In("A")),), kinds=(OK, E1), kind_slots=3, attempts=0, delay=1),
        Node("O", (("r", In("R")),)),
    ], "A", "O")


def oneof_diamond() -> Spec:
    """First candidate joins a fallible chain F -> M and an independent (possibly slow) node S:
    F may fail while S is still in flight, so the failing branch cancels pending sibling work."""
    return Spec("oneof_diamond", [
        Node("A"),
        Node("F", (("a", In("A")),), kinds=F),
        Node("S", (("a", In("A")),)),
        Node("M", (("f", In("F")),)),
        Node("C1", (("m", In("M")), ("s", In("S")))),
        Node("C2", (("a", In("A")),), kinds=F),
        Node("O", (("v", OneOf(("C1", "C2"))),)),
    ], "A", "O")


# --------------------------------------------------------------- recurrent ---
def rec_simple(max_iter: int = 2, use_default: bool = False, fall: bool = False) -> Spec:
    return Spec("rec_simple", [
        Node("S", takes_ad=True),
        Node("M", (("s", In("S")),), kinds=F if fall else (OK,), kind_slots=2),
        Node("D", (("m", In("M")),), recurrent=True, want_max=max_iter + 1, use_default=use_default),
        Node("O", (("d", Rec("S", "D", max_iter)),)),
    ], "S", "O")


def rec_inner_start(max_iter: int = 2, use_default: bool = False) -> Spec:
    """Start node is not the input node; a side node outside the subgraph also feeds the output."""
    return Spec("rec_inner_start", [
        Node("A"),
        Node("S", (("a", In("A")),), takes_ad=True),
        Node("M", (("s", In("S")),)),
        Node("D", (("m", In("M")),), recurrent=True, want_max=max_iter + 1, use_default=use_default),
        Node("Side", (("a", In("A")),)),
        Node("O", (("d", Rec("S", "D", max_iter)), ("side", In("Side")))),
    ], "A", "O")


def rec_side_input(max_iter: int = 1) -> Spec:
    """A node inside the subgraph (M) also depends on a node outside it (Side) that is neither an ancestor nor a
    descendant of the start node: Side must run once, whatever the number of iterations."""
    return Spec("rec_side_input", [
        Node("A"),
        Node("S", (("a", In("A")),), takes_ad=True),
        Node("Side", (("a", In("A")),)),
        Node("M", (("s", In("S")), ("side", In("Side")))),
        Node("D", (("m", In("M")),), recurrent=True, want_max=max_iter + 1, use_default=True),
        Node("O", (("d", Rec("S", "D", max_iter)),)),
    ], "A", "O")


def rec_nested_pattern() -> Spec:
    """Nested recurrent subgraphs; the inner destination decides per invocation whether it asks for another iteration, so it
    can finish with a real result and be asked to iterate again in a later iteration of the outer subgraph."""
    return Spec("rec_nested_pattern", [
        Node("S", takes_ad=True),
        Node("T", (("s", In("S")),), takes_ad=True),
        Node("D1", (("t", In("T")),), recurrent=True, rec_pattern=True, use_default=True),
        Node("U", (("d1", Rec("T", "D1", 2)),)),
        Node("D2", (("u", In("U")),), recurrent=True, want_max=1, use_default=True),
        Node("O", (("d2", Rec("S", "D2", 1)),)),
    ], "S", "O", dur_nodes=())


def rec_in_oneof_chain(max_iter: int = 1) -> Spec:
    """As rec_in_oneof with one more node between the fallible node and the destination: a failure in an iteration is then
    two steps away from the destination of the subgraph, and the one-of has to learn about it all the same."""
    return Spec("rec_in_oneof_chain", [
        Node("S", takes_ad=True),
        Node("M", (("s", In("S")),), kinds=F, kind_slots=2),
        Node("N", (("m", In("M")),)),
        Node("D", (("n", In("N")),), recurrent=True, want_max=max_iter + 1),
        Node("P1", (("d", Rec("S", "D", max_iter)),)),
        Node("P2", (("s", In("S")),)),
        Node("O", (("v", OneOf(("P1", "P2"))),)),
    ], "S", "O", dur_nodes=("M",))


def rec_nested_in_oneof() -> Spec:
    """Nested recurrent subgraphs without defaults inside a one-of candidate: the inner subgraph may finish on the ordinary
    pass and exhaust later, when it is re-executed by an iteration of the outer subgraph; that only fails the candidate."""
    return Spec("rec_nested_in_oneof", [
        Node("S", takes_ad=True),
        Node("T", (("s", In("S")),), takes_ad=True),
        Node("D1", (("t", In("T")),), recurrent=True, rec_pattern=True),
        Node("U", (("d1", Rec("T", "D1", 1)),)),
        Node("D2", (("u", In("U")),), recurrent=True, want_max=2),
        Node("P1", (("d2", Rec("S", "D2", 1)),)),
        Node("P2", (("s", In("S")),)),
        Node("O", (("v", OneOf(("P1", "P2"))),)),
    ], "S", "O", dur_nodes=())


def rec_with_switch_inner(max_iter: int = 1) -> Spec:
    """As rec_with_switch, but the start node of the subgraph is not the pipeline's input node, and the consumer of the
    switch has a second dependency."""
    return Spec("rec_with_switch_inner", [
        Node("A"),
        Node("S", (("a", In("A")),), takes_ad=True),
        Node("W", (("s", In("S")),), labels=("l1", "l2"), label_slots=2),
        Node("X", (("s", In("S")),)), Node("Y", (("a", In("A")),)),
        Node("Side", (("s", In("S")),)),
        Node("C", (("v", Sw("W", (("l1", "X"), ("l2", "Y")), "sw")), ("side", In("Side")))),
        Node("D", (("c", In("C")),), recurrent=True, want_max=max_iter + 1, use_default=True),
        Node("O", (("d", Rec("S", "D", max_iter)),)),
    ], "A", "O", dur_nodes=("W", "Side"))


def oneof_candidate_also_input() -> Spec:
    """The first candidate Sh of O's one-of is also a plain Input of another node Rp (which has a second, possibly faster
    input): Rp must wait for Sh like for any other input."""
    return Spec("oneof_candidate_also_input", [
        Node("A"),
        Node("Sh", (("a", In("A")),), kinds=F), Node("Fst", (("a", In("A")),)),
        Node("Rp", (("shared", In("Sh")), ("f", In("Fst")))),
        Node("C2", (("a", In("A")),)),
        Node("O", (("v", OneOf(("Sh", "C2"))), ("r", In("Rp")))),
    ], "A", "O", dur_nodes=("Sh", "Fst"))


def rec_retry_inside(max_iter: int = 2) -> Spec:
    """A retrying node (attempts = 2) inside the recurrent subgraph: every iteration gets the full number of attempts."""
    return Spec("rec_retry_inside", [
        Node("S", takes_ad=True),
        Node("R", (("s", In("S")),), kinds=(OK, E1), kind_slots=6, attempts=2, delay=1),
        Node("D", (("r", In("R")),), recurrent=True, want_max=max_iter, use_default=True),
        Node("O", (("d", Rec("S", "D", max_iter)),)),
    ], "S", "O", dur_nodes=("R",))


def rec_none_data(max_iter: int = 2) -> Spec:
    """The destination may pass None as the data of any iteration (also after a non-None one)."""
    return Spec("rec_none_data", [
        Node("S", takes_ad=True),
        Node("M", (("s", In("S")),)),
        Node("D", (("m", In("M")),), recurrent=True, want_max=max_iter, use_default=True, rec_none=True),
        Node("O", (("d", Rec("S", "D", max_iter)),)),
    ], "S", "O", dur_nodes=("M",))


def rec_outside_reader(max_iter: int = 1) -> Spec:
    """A node outside the subgraph reads a node inside it (which iteration's value does it see?)."""
    return Spec("rec_outside_reader", [
        Node("S", takes_ad=True),
        Node("M", (("s", In("S")),)),
        Node("D", (("m", In("M")),), recurrent=True, want_max=max_iter + 1, use_default=True),
        Node("R", (("m", In("M")),)),
        Node("O", (("d", Rec("S", "D", max_iter)), ("r", In("R")))),
    ], "S", "O")


def rec_outside_reader_slow(max_iter: int = 1) -> Spec:
    """The outside reader R also waits for an independent chain Q -> Q2 -> Q3 (deeper than the subgraph, so the
    engine launches D before R): whether R sees iteration 1 or 2 of M depends on when Q3 finishes (the
    schedule-dependence named in the C01 record)."""
    return Spec("rec_outside_reader_slow", [
        Node("A"),
        Node("S", (("a", In("A")),), takes_ad=True),
        Node("M", (("s", In("S")),)),
        Node("D", (("m", In("M")),), recurrent=True, want_max=max_iter, use_default=True),
        Node("Q", (("a", In("A")),)), Node("Q2", (("q", In("Q")),)), Node("Q3", (("q", In("Q2")),)),
        Node("R", (("m", In("M")), ("q", In("Q3")))),
        Node("O", (("d", Rec("S", "D", max_iter)), ("r", In("R")))),
    ], "A", "O")


def rec_two_scopes(max_iter: int = 1) -> Spec:
    """Destination consumed through the mark and through a switch case scope."""
    return Spec("rec_two_scopes", [
        Node("S", takes_ad=True),
        Node("D", (("s", In("S")),), recurrent=True, want_max=max_iter + 1, use_default=True),
        Node("W", (("s", In("S")),), labels=("l1", "l2")),
        Node("X", (("d", Rec("S", "D", max_iter)),)),
        Node("Y", (("s", In("S")),)),
        Node("O", (("v", Sw("W", (("l1", "X"), ("l2", "Y")), "sw")), ("d", Rec("S", "D", max_iter)))),
    ], "S", "O")


def rec_with_switch(max_iter: int = 2) -> Spec:
    """Switch inside the recurrent subgraph; case X may fail (also when it is not the selected one)."""
    return Spec("rec_with_switch", [
        Node("S", takes_ad=True),
        Node("W", (("s", In("S")),), labels=("l1", "l2"), label_slots=2),
        Node("X", (("s", In("S")),), kinds=F, kind_slots=2), Node("Y", (("s", In("S")),)),
        Node("C", (("v", Sw("W", (("l1", "X"), ("l2", "Y")), "sw")),)),
        Node("D", (("c", In("C")),), recurrent=True, want_max=max_iter + 1, use_default=True),
        Node("O", (("d", Rec("S", "D", max_iter)),)),
    ], "S", "O", dur_nodes=("W", "X", "Y", "D"))


def rec_with_oneof(max_iter: int = 1) -> Spec:
    """One-of inside the recurrent subgraph."""
    return Spec("rec_with_oneof", [
        Node("S", takes_ad=True),
        Node("C1", (("s", In("S")),), kinds=F, kind_slots=2), Node("C2", (("s", In("S")),), kinds=F, kind_slots=2),
        Node("M", (("v", OneOf(("C1", "C2"))),)),
        Node("D", (("m", In("M")),), recurrent=True, want_max=max_iter + 1, use_default=True),
        Node("O", (("d", Rec("S", "D", max_iter)),)),
    ], "S", "O")


def rec_in_oneof(max_iter: int = 1) -> Spec:
    """Recurrent subgraph inside a one-of candidate (test_oneof_with_recurrent_subgraph shape)."""
    return Spec("rec_in_oneof", [
        Node("S", takes_ad=True),
        Node("M", (("s", In("S")),), kinds=F, kind_slots=2),
        Node("D", (("m", In("M")),), recurrent=True, want_max=max_iter + 1),
        Node("P1", (("d", Rec("S", "D", max_iter)),)),
        Node("P2", (("s", In("S")),)),
        Node("O", (("v", OneOf(("P1", "P2"))),)),
    ], "S", "O")


def rec_nested(max_iter: int = 1) -> Spec:
    return Spec("rec_nested", [
        Node("S", takes_ad=True),
        Node("T", (("s", In("S")),), takes_ad=True),
        Node("D1", (("t", In("T")),), recurrent=True, want_max=max_iter + 1, use_default=True),
        Node("U", (("d1", Rec("T", "D1", max_iter)),)),
        Node("D2", (("u", In("U")),), recurrent=True, want_max=max_iter + 1, use_default=True),
        Node("O", (("d2", Rec("S", "D2", max_iter)),)),
    ], "S", "O")


# ------------------------------------------------------------------- retry ---
def retry_sibling(attempts: int = 2, delay: int = 1, use_default: bool = False) -> Spec:
    """A retrying node beside a failing sibling (retry timer vs failure race)."""
    return Spec("retry_sibling", [
        Node("A"),
        Node("R", (("a", In("A")),), kinds=(OK, E1, E2), kind_slots=attempts + 1, attempts=attempts, delay=delay,
             exceptions=("E1",), use_default=use_default),
        Node("B", (("a", In("A")),), kinds=F),
        Node("O", (("r", In("R")), ("b", In("B")))),
    ], "A", "O")


def retry_chain(attempts: int = 3, use_default: bool = True) -> Spec:
    return Spec("retry_chain", [
        Node("A"),
        Node("R", (("a", In("A")),), kinds=(OK, E1, E2), kind_slots=attempts + 1, attempts=attempts, delay=2,
             use_default=use_default),
        Node("O", (("r", In("R")),)),
    ], "A", "O")


TEMPLATES: Dict[str, Callable[..., Spec]] = {f.__name__: f for f in [
    chain, rhombus, fan, mixed_modes, switch_basic, switch_deep, switch_nested, switch_shared_case,
    switch_case_also_input, oneof_basic, oneof_depth, oneof_three, oneof_nested, oneof_sibling,
    oneof_chained, oneof_with_switch, oneof_with_switch_deep, oneof_shared_dep, oneof_diamond,
    oneof_shared_inflight, oneof_shared_failing_ancestor, oneof_with_switch_unknown, oneof_siblings_shared,
    switch_two_deciders, switch_unnamed_same_decider, rec_retry_inside, rec_none_data, oneof_diamond_shared,
    rec_nested_pattern, rec_with_switch_inner, oneof_candidate_also_input, oneof_reached_twice, oneof_reached_via_nested, retry_attempts_zero, rec_simple, rec_inner_start, rec_outside_reader,
    rec_two_scopes, rec_outside_reader_slow, rec_side_input, rec_with_switch, rec_with_oneof, rec_in_oneof, rec_nested, retry_sibling, retry_chain,
]}


def retry_outside_reader() -> Spec:
    """A retrying node that reads the start node of a recurrent subgraph without being part of it: the subgraph may
    re-execute that start node between two attempts, and every attempt must still get the arguments of the first."""
    return Spec("retry_outside_reader", [
        Node("S", takes_ad=True),
        Node("D", (("s", In("S")),), recurrent=True, want_max=1, use_default=True),
        Node("R", (("s", In("S")),), kinds=(OK, E1), kind_slots=2, attempts=2, delay=2, exceptions=("E1",), use_default=True),
        Node("O", (("d", Rec("S", "D", 1)), ("r", In("R")))),
    ], "S", "O", dur_nodes=("S", "D"))


def rec_generic_start(max_iter: int = 1) -> Spec:
    """rec_simple whose start node is declared through build_node with dependencies_default: additional_data is a keyword the
    engine passes in some executions only, the defaults in all of them."""
    return Spec("rec_generic_start", [
        Node("S", takes_ad=True, generic=True),
        Node("M", (("s", In("S")),), generic=True),
        Node("D", (("m", In("M")),), recurrent=True, want_max=max_iter + 1, use_default=True),
        Node("O", (("d", Rec("S", "D", max_iter)),)),
    ], "S", "O")
