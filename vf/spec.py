"""Declarative pipeline specs -> real node classes (DESIGN §1.3).

A spec is written once; from it (a) real ``ProcessorBase``/``RecurrentProcessor``
subclasses are generated whose ``process.__annotations__`` carry the engine's real
marks and are handed to the real ``build_dag``; (b) the reference interpreter
(refsem.py) is run.  Generated bodies are thin: log, wait the node's duration,
produce the outcome prescribed by the run's (symbolic) behaviour.
"""
from __future__ import annotations

import asyncio
import contextvars
from dataclasses import dataclass, field
from typing import Any, Dict, List, Optional, Tuple

COEF = (2, 3, 5, 7, 11, 13)
ICOEF = (1, 17, 19)
AD_COEF = 1009
DEFAULT_OFFSET = 100003
REC_DATA_OFFSET = 7

# outcome kinds of one invocation
OK, E1, E2, RET_NONE, BASE_EXC, RET_ZERO = 0, 1, 2, 3, 4, 5
KIND_NAMES = {OK: "ok", E1: "E1", E2: "E2", RET_NONE: "None", BASE_EXC: "BaseExc", RET_ZERO: "zero"}


class NodeErr1(Exception):
    pass


class NodeErr2(Exception):
    pass


class NodeBaseExc(BaseException):
    pass


class CollabError(Exception):
    """Raised by a faulty collaborator (event manager / artifact store)."""


# ---------------------------------------------------------------- marks ------
@dataclass(frozen=True)
class In:
    node: str


@dataclass(frozen=True)
class Sw:
    switch: str
    cases: Tuple[Tuple[str, str], ...]
    name: str


@dataclass(frozen=True)
class OneOf:
    nodes: Tuple[str, ...]


@dataclass(frozen=True)
class Rec:
    start: str
    dest: str
    max_iter: int


@dataclass
class Node:
    name: str
    params: Tuple[Tuple[str, Any], ...] = ()
    mode: str = "async"  # async | inline | thread | process
    recurrent: bool = False  # RecurrentProcessor base (may call next_iteration)
    takes_ad: bool = False  # declares the additional_data parameter
    kinds: Tuple[int, ...] = (OK,)  # outcome kinds a (symbolic) invocation may have
    kind_slots: int = 1  # invocations 0..slots-1 get their own kind variable; later ones reuse the last
    labels: Tuple[str, ...] = ()  # switch decider: labels it may return
    unknown_label: bool = False  # ... plus a label matching no case
    none_label: bool = False  # ... plus None as the returned label
    label_slots: int = 1
    want_max: int = 0  # recurrent dest: asks for next_iteration `want` times, want in [0, want_max]
    rec_pattern: bool = False  # ... instead of `want`: a symbolic yes/no per invocation (so that a finished inner subgraph can
    #                            be asked to iterate again in a later iteration of an outer one)
    rec_none: bool = False  # ... and may pass None as the data of an iteration (symbolic per iteration)
    attempts: Optional[int] = None
    delay: Optional[int] = None
    exceptions: Optional[Tuple[str, ...]] = None  # names: 'E1', 'E2'
    use_default: bool = False
    generic: bool = False  # declared through build_node(<generic base>, ...) instead of a plain class
    base: int = 0  # filled by Spec


@dataclass
class Spec:
    name: str
    nodes: List[Node]
    input: str
    output: str
    input_keys: Tuple[str, ...] = ("x",)
    dur_nodes: Optional[Tuple[str, ...]] = None  # nodes with a symbolic duration (None: all but input/output)

    def __post_init__(self) -> None:
        self.by_name: Dict[str, Node] = {}
        for i, n in enumerate(self.nodes):
            n.base = 13 + 17 * i
            self.by_name[n.name] = n

    def node_id(self, name: str) -> str:
        return "processor__" + name

    def name_of(self, node_id: str) -> Optional[str]:
        if node_id.startswith("processor__"):
            return node_id[len("processor__"):]
        return None

    # dependency relation (node -> nodes its marks mention)
    def deps(self, name: str) -> List[str]:
        out: List[str] = []
        for _, m in self.by_name[name].params:
            if isinstance(m, In):
                out.append(m.node)
            elif isinstance(m, Sw):
                out.append(m.switch)
                out.extend(c for _, c in m.cases)
            elif isinstance(m, OneOf):
                out.extend(m.nodes)
            elif isinstance(m, Rec):
                out.append(m.dest)
        return out

    def rec_marks(self) -> List[Rec]:
        out = []
        for n in self.nodes:
            for _, m in n.params:
                if isinstance(m, Rec) and m not in out:
                    out.append(m)
        return out

    def ancestors(self, name: str) -> set:
        seen: set = set()
        stack = [name]
        while stack:
            cur = stack.pop()
            for d in self._deps_with_input(cur):
                if d not in seen:
                    seen.add(d)
                    stack.append(d)
        return seen

    def _deps_with_input(self, name: str) -> List[str]:
        d = self.deps(name)
        if not self.by_name[name].params and name != self.input:
            d = [self.input]
        return d

    def subgraph_nodes(self, start: str, dest: str) -> set:
        """Nodes on dependency paths start -> dest (both included)."""
        anc_dest = self.ancestors(dest) | {dest}
        out = set()
        for n in anc_dest:
            if n == start or start in self.ancestors(n):
                out.add(n)
        return out


# ------------------------------------------------------------ run context ----
CUR: contextvars.ContextVar = contextvars.ContextVar("verif_run_ctx")


@dataclass
class Inv:
    node: str
    k: int
    kwargs: Dict[str, Any]
    t: Any
    it: int
    seq: int
    outcome: Any = None  # ('val', v) | ('exc', e) | ('rec', data) | ('label', s)


class Behaviour:
    """The run's (symbolic) behaviour: one accessor per variable of DESIGN §1.3."""

    def __init__(self, sym: Any, spec: Spec, run: str = "r", *, sym_dur: bool = True,
                 dur_max: int = 86399, sym_input: bool = True, input_range: Tuple[int, int] = (-1000, 1000),
                 sym_base: bool = False, fixed: Optional[Dict[str, Any]] = None, zero_dur: bool = False,
                 dur_nodes: Optional[set] = None) -> None:
        self.sym = sym
        self.spec = spec
        self.run = run
        self.sym_dur = sym_dur
        self.dur_max = dur_max
        self.sym_input = sym_input
        self.input_range = input_range
        self.sym_base = sym_base
        self.fixed = fixed or {}
        self.zero_dur = zero_dur
        self.dur_nodes = dur_nodes
        self._inputs: Optional[Dict[str, Any]] = None

    def _n(self, s: str) -> str:
        return "%s.%s" % (self.run, s)

    def zeroed(self) -> "Behaviour":
        """Same behaviour, canonical schedule (all durations 0)."""
        b = Behaviour.__new__(Behaviour)
        b.__dict__.update(self.__dict__)
        b.zero_dur = True
        return b

    def inputs(self) -> Dict[str, Any]:
        if self._inputs is None:
            d = {}
            for key in self.spec.input_keys:
                nm = self._n("in." + key)
                if nm in self.fixed:
                    d[key] = self.fixed[nm]
                elif self.sym_input:
                    d[key] = self.sym.int(nm, *self.input_range)
                else:
                    d[key] = 3
            self._inputs = d
        return dict(self._inputs)

    def base(self, nd: Node) -> Any:
        if self.sym_base:
            return self.sym.int(self._n(nd.name + ".base"), -50, 50)
        return nd.base

    def dur(self, nd: Node, k: int) -> Any:
        if self.zero_dur or nd.mode == "inline":
            return 0
        nm = self._n(nd.name + ".dur")
        if nm in self.fixed:
            return self.fixed[nm]
        if not self.sym_dur or (self.dur_nodes is not None and nd.name not in self.dur_nodes):
            return 0
        return self.sym.int(nm, 0, self.dur_max)

    def kind(self, nd: Node, k: int) -> int:
        if len(nd.kinds) <= 1:
            return nd.kinds[0] if nd.kinds else OK
        slot = min(k, nd.kind_slots - 1)
        nm = self._n("%s.kind%d" % (nd.name, slot))
        if nm in self.fixed:
            return self.fixed[nm]
        return nd.kinds[self.sym.choice(nm, len(nd.kinds))]

    def label(self, nd: Node, k: int) -> Any:
        n = len(nd.labels) + (1 if nd.unknown_label else 0) + (1 if nd.none_label else 0)
        slot = min(k, nd.label_slots - 1)
        nm = self._n("%s.label%d" % (nd.name, slot))
        if nm in self.fixed:
            i = self.fixed[nm]
        else:
            i = self.sym.choice(nm, n)
        if i < len(nd.labels):
            return nd.labels[i]
        if nd.unknown_label and i == len(nd.labels):
            return "?nocase"
        return None

    def rec_offset(self, nd: Node) -> Any:
        """data = value + offset; the offset is symbolic so that falsy data (0) is among the cases"""
        nm = self._n(nd.name + ".recoff")
        if nm in self.fixed:
            return self.fixed[nm]
        return self.sym.int(nm, -8, 8)

    def rec_data_is_none(self, nd: Node, k: int) -> bool:
        if not nd.rec_none:
            return False
        nm = self._n("%s.datanone%d" % (nd.name, min(k, 2)))
        if nm in self.fixed:
            return bool(self.fixed[nm])
        return self.sym.bool(nm)

    def asks_again(self, nd: Node, k: int, rec_count: int) -> Any:
        """Does the k-th invocation of the destination ask for another iteration?"""
        if nd.rec_pattern:
            nm = self._n("%s.rec%d" % (nd.name, min(k, 5)))
            if nm in self.fixed:
                return bool(self.fixed[nm])
            return self.sym.bool(nm)
        return rec_count < self.want(nd)

    def want(self, nd: Node) -> Any:
        if nd.want_max <= 0:
            return 0
        nm = self._n(nd.name + ".want")
        if nm in self.fixed:
            return self.fixed[nm]
        return self.sym.int(nm, 0, nd.want_max)


def num(x: Any, bad: List[Any], where: Any) -> Any:
    if x is None:
        return 0
    if isinstance(x, bool) or not isinstance(x, int):
        bad.append((where, type(x).__name__))
        return 0
    return x


def node_value(spec: Spec, nd: Node, base: Any, kwargs: Dict[str, Any], bad: List[Any]) -> Any:
    v = base
    for i, (pname, _mark) in enumerate(nd.params):
        v = v + COEF[i] * num(kwargs.get(pname), bad, (nd.name, pname))
    if nd.name == spec.input:
        for j, key in enumerate(spec.input_keys):
            v = v + ICOEF[j] * num(kwargs.get(key), bad, (nd.name, key))
    if nd.takes_ad and "additional_data" in kwargs:
        # presence counts too (+501): additional_data = 0 is different from "no additional_data"
        ad = kwargs.get("additional_data")
        v = v + 501 + AD_COEF * num(ad, bad, (nd.name, "additional_data"))
    return v


_MARKED: List[Any] = []


def reset_instance_marks() -> None:
    """Called by the driver before every harness invocation (symbolic or concrete), so that instance-reuse detection
    does not depend on what earlier paths did (a caching engine would keep instances alive across paths)."""
    for inst in _MARKED:
        try:
            inst._verif_used = False
        except Exception:  # noqa: BLE001
            pass
    del _MARKED[:]


class RunCtx:
    """Per-run observation log + behaviour; reached by bodies through ``CUR``."""

    def __init__(self, spec: Spec, beh: Behaviour, loop: Any) -> None:
        self.spec = spec
        self.beh = beh
        self.loop = loop
        self.seq = 0
        self.log: List[Tuple[int, str, str, Any]] = []
        self.invs: List[Inv] = []
        self.count: Dict[str, int] = {}
        self.started: Dict[str, int] = {}
        self.rec_count: Dict[str, int] = {}
        self.raised: List[BaseException] = []
        self.bad: List[Any] = []
        self.reused: List[str] = []
        self.blocking: List[str] = []  # blocking calls made on the event-loop thread by engine code
        self.defaults: List[Tuple[str, Dict[str, Any], Any]] = []
        self.events: List[Tuple[int, str, Any, Any]] = []
        self.saves: List[Tuple[int, str, Any]] = []
        self.frozen = False  # set before the loop is torn down
        self.closed = False  # set when the run task is done: later activity is a leak
        self.late: List[Any] = []
        self.ev_calls = 0
        self.save_calls = 0
        self.ev_fail_at: Any = -1
        self.save_fail_at: Any = -1
        self.collab_dur: Any = 0  # duration of every event callback
        self.save_dur: Any = 0  # duration of every artifact save
        self.ev_durs: Dict[str, Any] = {}  # per event name (overrides collab_dur)
        self.store_write_once = False
        self.hold: Optional[set] = None  # nodes whose bodies never complete (C06)

    def _rec(self, kind: str, node: str, payload: Any = None) -> int:
        if self.frozen:
            return self.seq
        self.seq += 1
        self.log.append((self.seq, kind, node, payload))
        if self.closed and kind in ("start", "ev", "ev_begin", "save"):
            self.late.append((kind, node))
        return self.seq

    # called at body start (async/inline) or at submission (thread/process)
    def start(self, node: str) -> int:
        k = self.started.get(node, 0)
        self.started[node] = k + 1
        self._rec("start", node, (k, self.loop.iterations, self.loop.time()))
        return k

    def begin(self, node: str, kwargs: Dict[str, Any], instance: Any = None) -> Inv:
        if instance is not None:
            # "a new node object per invocation": state kept on self must not survive an invocation
            if getattr(instance, "_verif_used", False):
                self.reused.append(node)
            try:
                instance._verif_used = True
                _MARKED.append(instance)
            except Exception:  # noqa: BLE001
                pass
        k = self.count.get(node, 0)
        self.count[node] = k + 1
        s = self._rec("body", node, k)
        inv = Inv(node=node, k=k, kwargs=dict(kwargs), t=self.loop.time(), it=self.loop.iterations, seq=s)
        self.invs.append(inv)
        return inv

    def finish(self, inv: Inv, instance: Any) -> Any:
        nd = self.spec.by_name[inv.node]
        beh = self.beh
        kind = beh.kind(nd, inv.k)
        if kind == E1:
            e: BaseException = NodeErr1(inv.node, inv.k)
        elif kind == E2:
            e = NodeErr2(inv.node, inv.k)
        elif kind == BASE_EXC:
            e = NodeBaseExc(inv.node, inv.k)
        else:
            e = None  # type: ignore[assignment]
        if e is not None:
            self.raised.append(e)
            inv.outcome = ("exc", e)
            self._rec("end", inv.node, ("exc", inv.k))
            raise e
        if kind == RET_NONE:
            inv.outcome = ("val", None)
            self._rec("end", inv.node, ("none", inv.k))
            return None
        if kind == RET_ZERO:
            inv.outcome = ("val", 0)
            self._rec("end", inv.node, ("zero", inv.k))
            return 0
        if nd.labels or nd.unknown_label:
            lab = beh.label(nd, inv.k)
            inv.outcome = ("label", lab)
            self._rec("end", inv.node, ("label", inv.k))
            return lab
        v = node_value(self.spec, nd, beh.base(nd), inv.kwargs, self.bad)
        if nd.recurrent and (nd.want_max > 0 or nd.rec_pattern):
            rc = self.rec_count.get(inv.node, 0)
            if beh.asks_again(nd, inv.k, rc):
                self.rec_count[inv.node] = rc + 1
                data = None if beh.rec_data_is_none(nd, rc) else v + beh.rec_offset(nd)
                inv.outcome = ("rec", data)
                self._rec("end", inv.node, ("rec", inv.k))
                return instance.next_iteration(data)
        inv.outcome = ("val", v)
        self._rec("end", inv.node, ("val", inv.k))
        return v

    def default(self, node: str, kwargs: Dict[str, Any]) -> Any:
        nd = self.spec.by_name[node]
        v = node_value(self.spec, nd, self.beh.base(nd), kwargs, self.bad) + DEFAULT_OFFSET
        self.defaults.append((node, dict(kwargs), v))
        self._rec("default", node, None)
        return v


# --------------------------------------------------------- class generation --
GENERIC_DEFAULT = {"generic_default": 7}


def _generic_default(name: str, kwargs: Dict[str, Any], node: Any) -> None:
    """A generic node is built with ``dependencies_default={'generic_default': 7}``: every invocation gets exactly that extra
    keyword, and the dict the caller handed to build_node stays what it was (it belongs to the caller, and it is shared by
    every execution of the node class)."""
    dflt = getattr(type(node), "_verif_defaults", None)
    if dflt is None:
        return
    rc: RunCtx = CUR.get()
    got = kwargs.pop("generic_default", None)
    if got != 7:
        rc.bad.append(((name, "generic_default"), "missing_or_wrong"))
    if len(dflt) != 1 or dflt.get("generic_default") != 7:
        rc.bad.append(((name, "dependencies_default"), "dict_mutated"))


def _make_process(name: str, mode: str) -> Any:
    if mode in ("async", "async_tag_inline", "async_tag_process"):
        async def process(self: Any, **kwargs: Any) -> Any:
            rc: RunCtx = CUR.get()
            _generic_default(name, kwargs, self)
            rc.start(name)
            inv = rc.begin(name, kwargs, self)
            if rc.hold is not None and name in rc.hold:
                await rc.loop.create_future()  # never completes
            d = rc.beh.dur(rc.spec.by_name[name], inv.k)
            await asyncio.sleep(d)
            return rc.finish(inv, self)
    elif mode == "inline":
        def process(self: Any, **kwargs: Any) -> Any:  # type: ignore[misc]
            rc: RunCtx = CUR.get()
            _generic_default(name, kwargs, self)
            rc.start(name)
            inv = rc.begin(name, kwargs, self)
            return rc.finish(inv, self)
    else:
        def process(self: Any, **kwargs: Any) -> Any:  # type: ignore[misc]
            # start was logged at submission by the executor stub
            rc: RunCtx = CUR.get()
            _generic_default(name, kwargs, self)
            inv = rc.begin(name, kwargs, self)
            return rc.finish(inv, self)
    return process


def _make_default(name: str) -> Any:
    def get_default(self: Any, **kwargs: Any) -> Any:
        rc: RunCtx = CUR.get()
        return rc.default(name, kwargs)

    return get_default


def build_classes(spec: Spec) -> Dict[str, type]:
    """Generate real node classes (call with tracing suspended)."""
    from ml_pipeline_engine.dag_builders.annotation import marks as M
    from ml_pipeline_engine.node import ProcessorBase, RecurrentProcessor

    exc_map = {"E1": NodeErr1, "E2": NodeErr2, "Exception": Exception}
    classes: Dict[str, type] = {}
    procs: Dict[str, Any] = {}
    for nd in spec.nodes:
        proc = _make_process(nd.name, nd.mode)
        procs[nd.name] = proc
        ns: Dict[str, Any] = {"process": proc, "name": nd.name, "__module__": "verif_generated",
                              "__doc__": "generated node " + nd.name}
        if nd.mode in ("inline", "async_tag_inline"):
            ns["tags"] = ("non_async",)  # on a coroutine node the tag is irrelevant: coroutines always run on the loop
        elif nd.mode in ("process", "async_tag_process"):
            ns["tags"] = ("process",)
        elif nd.mode == "thread":
            ns["tags"] = ()
        if nd.attempts is not None:
            ns["attempts"] = nd.attempts
        if nd.delay is not None:
            ns["delay"] = nd.delay
        if nd.exceptions is not None:
            ns["exceptions"] = tuple(exc_map[e] for e in nd.exceptions)
        if nd.use_default:
            ns["use_default"] = True
        ns["get_default"] = _make_default(nd.name)
        base = RecurrentProcessor if nd.recurrent else ProcessorBase
        if nd.generic:
            from ml_pipeline_engine.node import build_node

            gbase = type("GenericBase_" + nd.name, (base,), dict(ns, name="generic_" + nd.name))
            attrs = {k: v for k, v in ns.items() if k in ("tags", "attempts", "delay", "exceptions", "use_default")}
            dflt = dict(GENERIC_DEFAULT)
            cls = build_node(gbase, node_name=nd.name, class_name="Generic_" + nd.name, attrs=attrs,
                             dependencies_default=dflt)
            cls._verif_defaults = dflt
            classes[nd.name] = cls
            procs[nd.name] = cls.process
        else:
            classes[nd.name] = type(nd.name, (base,), ns)
    # annotations (second pass: marks reference classes)
    for nd in spec.nodes:
        ann: Dict[str, Any] = {}
        for pname, m in nd.params:
            if isinstance(m, In):
                ann[pname] = M.Input(classes[m.node])
            elif isinstance(m, Sw):
                ann[pname] = M.SwitchCase(switch=classes[m.switch],
                                          cases=[(lab, classes[c]) for lab, c in m.cases],
                                          name=None if m.name.startswith("?unnamed") else m.name)
            elif isinstance(m, OneOf):
                ann[pname] = M.InputOneOf([classes[c] for c in m.nodes])
            elif isinstance(m, Rec):
                ann[pname] = M.RecurrentSubGraph(start_node=classes[m.start], dest_node=classes[m.dest],
                                                 max_iterations=m.max_iter)
        if nd.takes_ad:
            ann["additional_data"] = Optional[Any]
        if nd.generic:
            procs[nd.name].__annotations__.update(ann)  # what build_node(**target_dependencies) does
        else:
            procs[nd.name].__annotations__ = ann
    return classes


def make_event_manager() -> type:
    class RecordingEvents:
        async def _cb(self, name: str, ctx: Any, **kw: Any) -> None:
            rc: RunCtx = CUR.get()
            owner = getattr(self, "_verif_owner", None)
            if owner is None:
                self._verif_owner = rc  # each run gets its own manager object (state kept on it must not be shared)
            elif owner is not rc and "event_manager" not in rc.reused:
                rc.reused.append("event_manager")
            rc.ev_calls += 1
            n = rc.ev_calls
            rc._rec("ev_begin", name, kw.get("node_id"))  # the callback has been entered
            d = rc.ev_durs.get(name, rc.collab_dur) if rc.ev_durs else rc.collab_dur
            if d:
                await asyncio.sleep(d)
            # the event counts as observed when a (possibly slow) manager has got through it: a manager registered after a
            # slow one sees it exactly then
            rc.events.append((rc._rec("ev", name, kw.get("node_id")), name, kw, ctx))
            if n == rc.ev_fail_at:
                raise CollabError("event", name, n)

        async def on_pipeline_start(self, ctx: Any) -> None:
            await self._cb("on_pipeline_start", ctx)

        async def on_pipeline_complete(self, ctx: Any, result: Any) -> None:
            await self._cb("on_pipeline_complete", ctx, result=result)

        async def on_node_start(self, ctx: Any, node_id: str) -> None:
            await self._cb("on_node_start", ctx, node_id=node_id)

        async def on_node_complete(self, ctx: Any, node_id: str, error: Any) -> None:
            await self._cb("on_node_complete", ctx, node_id=node_id, error=error)

    return RecordingEvents


class StoreAlreadyExists(Exception):
    pass


def make_store() -> type:
    from ml_pipeline_engine.artifact_store.store.base import ArtifactStore

    class RecordingStore(ArtifactStore):
        async def save(self, node_id: str, data: Any) -> None:
            rc: RunCtx = CUR.get()
            owner = getattr(self, "_verif_owner", None)
            if owner is None:
                self._verif_owner = rc
            elif owner is not rc and "artifact_store" not in rc.reused:
                rc.reused.append("artifact_store")
            rc.save_calls += 1
            n = rc.save_calls
            rc._rec("save", node_id, None)
            if rc.save_dur:
                await asyncio.sleep(rc.save_dur)
            if n == rc.save_fail_at:
                raise CollabError("save", node_id, n)
            if rc.store_write_once and any(s[1] == node_id for s in rc.saves):
                rc.saves.append((rc.seq, node_id, data))
                raise StoreAlreadyExists(node_id)
            rc.saves.append((rc.seq, node_id, data))

        async def load(self, node_id: str) -> Any:
            rc: RunCtx = CUR.get()
            for s in rc.saves:
                if s[1] == node_id:
                    return s[2]
            raise KeyError(node_id)

    return RecordingStore
