"""bin/check <ID> [--tier quick|thorough] [--replay file]   (DESIGN §1.7)

exit 0: the property held on everything explored (KNOWN-FINDING / INCONCLUSIVE lines possible)
exit 1: VIOLATION property=<id> replay=<path>   (a counterexample that reproduced concretely)
exit 2: harness error (never a verdict)
"""
from __future__ import annotations

import argparse
import json
import multiprocessing as mp
import os
import sys
import time
import traceback
from typing import Any, Dict, List, Optional, Tuple

VERIF = os.path.dirname(os.path.dirname(os.path.abspath(__file__)))
REPO = os.environ.get("VERIF_REPO", "/repo")
if REPO not in sys.path:
    sys.path.insert(0, REPO)
if VERIF not in sys.path:
    sys.path.insert(0, VERIF)

KNOWN_FILE = os.path.join(VERIF, "known_findings.json")


def load_known() -> List[Dict[str, Any]]:
    try:
        with open(KNOWN_FILE) as f:
            return json.load(f).get("findings", [])
    except FileNotFoundError:
        return []


class _V:
    """Variable view for known-finding predicates: v['name'] (missing -> KeyError -> no match)."""

    def __init__(self, sym: Any) -> None:
        self.sym = sym

    def __getitem__(self, k: str) -> Any:
        s = self.sym
        if k in s.fixed:
            return s.fixed[k]
        if k in s.choices:
            return s.choices[k]
        if k in s.vars:
            return s.vars[k]
        if hasattr(s, "used") and k in s.used:
            return s.used[k]
        if hasattr(s, "w") and k in s.w:
            return s.w[k]
        raise KeyError(k)

    def get(self, k: str, d: Any = None) -> Any:
        try:
            return self[k]
        except KeyError:
            return d


def _fails(v: "_V", *nodes: str) -> bool:
    """Some invocation of one of the nodes has the outcome kind 'raise E1' (index 1 of its kinds tuple)."""
    for n in nodes:
        for slot in range(4):
            if v.get("r.%s.kind%d" % (n, slot)) == 1:
                return True
    return False


def make_known_matcher(prop: str, job_name: str) -> Any:
    if os.environ.get("VERIF_NO_KNOWN"):
        return None
    entries = [e for e in load_known()
               if e.get("property") == prop and (job_name == e.get("job") or job_name in e.get("jobs", ()))]
    if not entries:
        return None

    def match(label: str, sym: Any, info: Dict[str, Any]) -> Optional[str]:
        for e in entries:
            if e.get("kind") != label:
                continue
            where = e.get("where", "True")
            try:
                ok = bool(eval(where, {"__builtins__": {}}, {"v": _V(sym), "fails": _fails}))  # noqa: S307 (committed file)
            except KeyError:
                ok = False
            if ok:
                return e["id"]
        return None

    return match


_COLLECTED: List[Tuple[str, Dict[str, Any]]] = []


def _collect(rec: Any) -> None:
    for lab in (rec.info.get("all_labels") or [rec.label]):
        if sum(1 for l, _ in _COLLECTED if l == lab) < 3:
            _COLLECTED.append((lab, rec.witness))


def _run_part(arg: Tuple[str, str, str, int, int]) -> Dict[str, Any]:
    prop, tier, job_name, part_idx, seed = arg
    from . import driver, jobs

    try:
        job = next(j for j in jobs.jobs_for(prop, "thorough") if j.name == job_name)
        fixed = job.part_list()[part_idx]
        fn = job.make()
        # concrete warm-up (lazy imports, networkx argmap compilation) before tracing.  It is also one ordinary
        # concrete execution of the harness on default values: a violation seen here is real (nothing symbolic is
        # involved) and is reported as the job's counterexample.  This also covers behaviour CrossHair neutralises
        # under tracing (e.g. functools.lru_cache is a pass-through while tracing).
        try:
            driver._reset_marks()
            conc = driver.Conc(dict(fixed))
            w_label, w_info = fn(conc)
            w_labels = [l for l in (w_label if isinstance(w_label, (list, tuple)) else [w_label]) if l != "ok"]
            matcher = make_known_matcher(prop, job.name)
            bad = [l for l in w_labels if matcher is None or matcher(l, conc, w_info) is None]
            if bad and not job.expect_refuted and not os.environ.get("VERIF_CONTINUE"):
                wit = dict(conc.witness(), **fixed)
                return {"job": job.name, "part": part_idx, "fixed": fixed, "status": "refuted", "exhausted": False,
                        "paths_confirmed": 0, "paths_known": 0, "reason": "concrete warm-up run", "cpu_s": 0.0,
                        "labels": {bad[0]: 1},
                        "counterexample": {"label": bad[0], "witness": wit, "info": {"all_labels": w_labels}, "known": None}}
        except driver.AssumptionFailed:
            pass
        budget = job.budget_s * (float(os.environ.get("VERIF_BUDGET_SCALE", "1")))
        res = driver.explore(
            "%s[%d]" % (job.name, part_idx), fn, budget_s=budget, per_path_timeout=job.per_path_timeout,
            known=make_known_matcher(prop, job.name), seed=seed, fixed=fixed,
            stop_on_refute=not os.environ.get("VERIF_CONTINUE"),
            on_refute=_collect if os.environ.get("VERIF_CONTINUE") else None,
        )
        if os.environ.get("VERIF_CONTINUE"):
            for lab, wit in _COLLECTED:
                print("    REFUTED %s[%d] label=%s witness=%s" % (job.name, part_idx, lab, wit), flush=True)
        d = res.__dict__.copy()
        ce = d.pop("counterexample")
        d["counterexample"] = None if ce is None else ce.__dict__
        d["job"] = job.name
        d["part"] = part_idx
        d["fixed"] = fixed
        # results cross a process boundary: anything that does not survive JSON (a coroutine object returned as a
        # run's value, an exception instance in a digest) is replaced by its repr
        return json.loads(json.dumps(d, default=repr))
    except BaseException as e:  # noqa: BLE001
        return {"job": job_name, "part": part_idx, "status": "harness_error",
                "error": "worker crashed: %r\n%s" % (e, traceback.format_exc())}


def replay_concrete(prop: str, job_name: str, witness: Dict[str, Any]) -> Tuple[str, Dict[str, Any]]:
    from . import driver, jobs

    job = next(j for j in jobs.jobs_for(prop, "thorough") if j.name == job_name)
    fn = job.make()
    try:
        driver._reset_marks()
        label, info = fn(driver.Conc(witness))
    except driver.AssumptionFailed:
        return ["<assumption failed>"], {}
    labels = [l for l in (label if isinstance(label, (list, tuple)) else [label])]
    return labels, info


def main(argv: Optional[List[str]] = None) -> int:
    ap = argparse.ArgumentParser()
    ap.add_argument("prop")
    ap.add_argument("--tier", default=os.environ.get("VERIF_TIER", "quick"), choices=["quick", "thorough"])
    ap.add_argument("--replay")
    ap.add_argument("--jobs", help="comma-separated job names (debugging)")
    ap.add_argument("--procs", type=int, default=int(os.environ.get("VERIF_PROCS", "16")))
    ap.add_argument("--no-evidence", action="store_true")
    a = ap.parse_args(argv)
    prop = a.prop
    seed = int(os.environ.get("VERIF_SEED", "0"))
    from . import jobs

    if a.replay:
        with open(a.replay) as f:
            r = json.load(f)
        labels, info = replay_concrete(r["property"], r["job"], r["witness"])
        print("replay job=%s labels=%s (recorded %s)" % (r["job"], labels, r["label"]))
        if r["label"] in labels:
            print("VIOLATION property=%s replay=%s" % (r["property"], a.replay))
            return 1
        return 0

    t0 = time.time()
    extra_seed_runs: List[Dict[str, Any]] = []
    if a.tier == "thorough" and not a.jobs and not os.environ.get("VERIF_NO_EXTRA_SEEDS") and prop in HASHSEED_PROPS:
        # string sets inside networkx (descendants_at_distance: notification order) follow PYTHONHASHSEED:
        # the quick-tier jobs are repeated under two more hash seeds (separate interpreters, separate solver runs)
        import subprocess

        for hs in ("1", "2"):
            env = dict(os.environ, PYTHONHASHSEED=hs, VERIF_NO_EXTRA_SEEDS="1")
            r = subprocess.run([sys.executable, "-W", "ignore", "-m", "vf.cli", prop, "--tier", "quick", "--no-evidence"],
                               env=env, cwd=VERIF, capture_output=True, text=True)
            tail = [l for l in r.stdout.splitlines() if l.startswith(("VIOLATION", "HARNESS-ERROR", "INCONCLUSIVE", prop + " tier="))]
            extra_seed_runs.append({"PYTHONHASHSEED": int(hs), "exit": r.returncode, "summary": tail[-3:]})
            for l in tail:
                print("[hashseed %s] %s" % (hs, l), flush=True)
    jl = jobs.jobs_for(prop, a.tier)
    if a.jobs:
        want = set(a.jobs.split(","))
        jl = [j for j in jl if j.name in want]
    if not jl:
        print("no jobs registered for %s" % prop)
        return 2
    tasks = []
    for j in jl:
        for pi in range(len(j.part_list())):
            tasks.append((prop, a.tier, j.name, pi, seed))
    # longest budgets first
    results: List[Dict[str, Any]] = []
    ctx = mp.get_context("fork")
    with ctx.Pool(min(a.procs, len(tasks)), maxtasksperchild=1) as pool:
        for d in pool.imap_unordered(_run_part, tasks, chunksize=1):
            results.append(d)
            st = d.get("status")
            print("  job=%s part=%s status=%s paths=%s known=%s cpu=%ss %s" % (
                d.get("job"), d.get("part"), st, d.get("paths_confirmed"), d.get("paths_known"),
                d.get("cpu_s"), (d.get("reason") or "")), flush=True)
    rc = finish(prop, a.tier, seed, jl, results, time.time() - t0, write_evidence=not a.no_evidence,
                extra_seed_runs=extra_seed_runs)
    for e in extra_seed_runs:
        rc = max(rc, e["exit"]) if e["exit"] in (1, 2) else rc
    return rc


HASHSEED_PROPS = {"C01", "C02", "C03", "C04", "C05", "C09", "C10", "C11", "C13", "C14", "C19"}


def finish(prop: str, tier: str, seed: int, jl: List[Any], results: List[Dict[str, Any]], wall: float,
           write_evidence: bool = True, extra_seed_runs: Optional[List[Dict[str, Any]]] = None) -> int:
    from . import jobs

    by_job: Dict[str, List[Dict[str, Any]]] = {}
    for d in results:
        by_job.setdefault(d["job"], []).append(d)
    rc = 0
    violations = 0
    lines: List[str] = []
    harness_errors: List[str] = []
    os.makedirs(os.path.join(VERIF, "replay"), exist_ok=True)
    jobs_ev = []
    goals_missing: List[str] = []
    for j in jl:
        parts = by_job.get(j.name, [])
        agg = {k: sum(p.get(k, 0) or 0 for p in parts) for k in (
            "paths_confirmed", "paths_known", "paths_ignored", "paths_unknown", "iterations", "z3_queries",
            "z3_seconds", "z3_unknown", "cpu_s", "crosschecked")}
        statuses = [p.get("status") for p in parts]
        goals: Dict[str, int] = {}
        labels: Dict[str, int] = {}
        known_hits: Dict[str, int] = {}
        samples: List[Any] = []
        bounds: Dict[str, Any] = {}
        for p in parts:
            for g, c in (p.get("goals_hit") or {}).items():
                goals[g] = goals.get(g, 0) + c
            for g, c in (p.get("labels") or {}).items():
                labels[g] = labels.get(g, 0) + c
            for g, c in (p.get("known_hits") or {}).items():
                known_hits[g] = known_hits.get(g, 0) + c
            samples.extend((p.get("samples") or [])[:2])
            bounds.update(p.get("bounds") or {})
        if "harness_error" in statuses:
            for p in parts:
                if p.get("status") == "harness_error":
                    harness_errors.append("%s[%s]: %s" % (j.name, p.get("part"), p.get("error")))
            status = "harness_error"
        elif "refuted" in statuses:
            status = "refuted"
        elif all(s == "confirmed" for s in statuses):
            status = "confirmed"
        else:
            status = "inconclusive"
        if j.expect_refuted:
            # reachability twin: the forced violation must be found
            if status != "refuted":
                harness_errors.append("%s: reachability twin not refuted (status %s): vacuous harness" % (j.name, status))
                status = "harness_error"
            else:
                status = "confirmed"
        elif status == "refuted":
            for p in parts:
                ce = p.get("counterexample")
                if p.get("status") != "refuted" or ce is None:
                    continue
                # replay before reporting (concrete, un-traced, fresh harness)
                labels, _info = replay_concrete(prop, j.name, ce["witness"])
                label = ce["label"] if ce["label"] in labels else (labels[0] if labels else "ok")
                path = os.path.join(VERIF, "replay", "%s_%s_%s.json" % (prop, j.name, p.get("part")))
                with open(path, "w") as f:
                    json.dump({"property": prop, "job": j.name, "label": ce["label"], "witness": ce["witness"],
                               "info": _plain(ce.get("info")), "replayed_label": label}, f, indent=1, default=repr)
                if label == ce["label"]:
                    violations += 1
                    lines.append("VIOLATION property=%s replay=%s" % (prop, path))
                    print("  counterexample job=%s label=%s witness=%s" % (j.name, ce["label"], ce["witness"]))
                else:
                    harness_errors.append("%s: counterexample did not reproduce (symbolic %r, concrete %r) witness=%r"
                                          % (j.name, ce["label"], label, ce["witness"]))
        elif status == "inconclusive":
            reasons = sorted({p.get("reason") or "?" for p in parts if p.get("status") == "inconclusive"})
            lines.append("INCONCLUSIVE job=%s reason=%s" % (j.name, ",".join(reasons)))
        if status == "confirmed" and not j.expect_refuted:
            for g in j.goals:
                if goals.get(g, 0) == 0:
                    goals_missing.append("%s: coverage goal %r not hit by any confirmed path" % (j.name, g))
        jobs_ev.append({
            "job": j.name, "tier": j.tier, "status": status, "exhausted": all(p.get("exhausted") for p in parts),
            "parts": len(parts), **agg, "z3_seconds": round(agg["z3_seconds"], 2), "cpu_s": round(agg["cpu_s"], 1),
            "goals_hit": goals, "labels": labels, "known_hits": known_hits, "bounds": bounds,
            "doc": j.doc, "samples": samples[:3], "reachability_twin": j.expect_refuted,
        })
    # known findings: replay the stored witnesses, print the ones that still fail
    kf_lines = []
    for e in load_known():
        if e.get("property") != prop:
            continue
        names = [e["job"]] if "job" in e else list(e.get("jobs", ()))
        jn = e.get("witness_job", names[0])
        if not any(j.name == jn for j in jl):
            if not any(j.name == jn for j in jobs.jobs_for(prop, "thorough")):
                harness_errors.append("known finding %s names unknown job %s" % (e["id"], jn))
            continue
        labels, _ = replay_concrete(prop, jn, e["witness"])
        if e["kind"] in labels:
            kf_lines.append("KNOWN-FINDING: property=%s %s [%s job=%s kind=%s]" % (prop, e["what"], e["id"], jn, e["kind"]))
    for e in goals_missing:
        harness_errors.append(e)
    for l in kf_lines:
        print(l)
    for l in lines:
        print(l)
    if harness_errors:
        for h in harness_errors:
            print("HARNESS-ERROR %s" % h)
    if violations:
        rc = 1
    elif harness_errors:
        rc = 2
    if write_evidence:
        write_ev(prop, tier, seed, jobs_ev, violations, wall, kf_lines, harness_errors, extra_seed_runs or [])
    tot_paths = sum(j["paths_confirmed"] + j["paths_known"] for j in jobs_ev)
    print("%s tier=%s jobs=%d paths=%d z3_queries=%d wall=%.1fs -> %s" % (
        prop, tier, len(jobs_ev), tot_paths, sum(j["z3_queries"] for j in jobs_ev), wall,
        {0: "HOLDS on everything explored", 1: "VIOLATION", 2: "HARNESS ERROR"}[rc]))
    return rc


def _plain(x: Any) -> Any:
    try:
        json.dumps(x)
        return x
    except Exception:  # noqa: BLE001
        return repr(x)


GLOBAL_ASSUMPTIONS = [
    "virtual event loop: real asyncio.BaseEventLoop ready-queue/timer-heap/_run_once/Task/Future/Condition; "
    "clock = integer virtual time, selector advances the clock, idle loop with nothing scheduled = Deadlock",
    "run_in_executor stub: work item completes after the node's (symbolic) duration on the loop thread; real "
    "thread/process pools, pickling and call_soon_threadsafe insertion inside a ready batch are outside the claim",
    "logging disabled, warnings silenced; explicit pipeline_id (no uuid4)",
    "manager task set replaced (public DAG.run_manager seam) by an insertion-ordered set with a symbolic order "
    "choice {insertion, reverse}; other orders outside the claim",
    "networkx and build_dag run natively (tracing suspended) on concrete graphs",
    "node bodies are generated deterministic bodies: value = base + sum(prime_i * arg_i), symbolic caller input",
    "PYTHONHASHSEED fixed by the runner",
]


def write_ev(prop: str, tier: str, seed: int, jobs_ev: List[Dict[str, Any]], violations: int, wall: float,
             kf_lines: List[str], harness_errors: List[str], extra_seed_runs: Optional[List[Dict[str, Any]]] = None) -> None:
    os.makedirs(os.path.join(VERIF, "evidence"), exist_ok=True)
    states = sum(j["paths_confirmed"] + j["paths_known"] for j in jobs_ev)
    samples = []
    for j in jobs_ev:
        for s in j["samples"][:2]:
            samples.append({"job": j["job"], **s})
    funcs = sorted({f for j in jobs_ev for f in j["doc"].get("functions", [])})
    ev = {
        "property_id": prop,
        "tier": tier,
        "seed": seed,
        "level": "model_checking",
        "coverage": {
            "states": max(states, 0),
            "transitions": sum(j["z3_queries"] for j in jobs_ev),
            "traces_validated_against_impl": sum(j["crosschecked"] for j in jobs_ev),
            "samples": samples[:12] or [{"note": "no confirmed path"}],
            "exhaustive": all(j["exhausted"] and j["status"] == "confirmed" for j in jobs_ev),
            "explanation": "states = distinct confirmed symbolic paths (each a class of inputs/schedules decided by z3); "
                           "transitions = z3 check() calls; traces_validated = per-path concrete re-runs of the "
                           "witness against the real code that agreed with the symbolic run",
            "solver": "z3 %s via crosshair-tool 0.0.110 (lean driver)" % _z3v(),
            "solver_seconds": round(sum(j["z3_seconds"] for j in jobs_ev), 2),
            "cpu_seconds": round(sum(j["cpu_s"] for j in jobs_ev), 1),
            "functions_encoded": funcs,
            "jobs": jobs_ev,
            "known_findings_reproduced": kf_lines,
            "harness_errors": harness_errors,
            "inconclusive_jobs": [j["job"] for j in jobs_ev if j["status"] == "inconclusive"],
            "python_hash_seed": int(os.environ.get("PYTHONHASHSEED", "0") or 0),
            "extra_hash_seed_runs": extra_seed_runs or [],
            "known_paths": sum(j["paths_known"] for j in jobs_ev),
        },
        "assumptions": GLOBAL_ASSUMPTIONS + sorted({a for j in jobs_ev for a in j["doc"].get("assumptions", [])}),
        "wall_s": round(wall, 2),
        "violations": violations,
    }
    with open(os.path.join(VERIF, "evidence", "%s.json" % prop), "w") as f:
        json.dump(ev, f, indent=1, default=repr)


def _z3v() -> str:
    import z3

    return z3.get_version_string()


if __name__ == "__main__":
    sys.exit(main())
