"""Job registry: a property check = a list of jobs, each an independent CrossHair search tree."""
from __future__ import annotations

from dataclasses import dataclass, field
from typing import Any, Callable, Dict, List, Optional, Tuple

from .driver import Sym

Harness = Callable[[Sym], Tuple[str, Dict[str, Any]]]


@dataclass
class Job:
    prop: str
    name: str
    make: Callable[[], Harness]  # builds the harness in the worker process
    tier: str = "quick"  # 'quick' jobs also run in the thorough tier
    budget_s: float = 240.0
    goals: Tuple[str, ...] = ()
    parts: Optional[List[Dict[str, Any]]] = None  # partition: pinned selector values, one tree each
    doc: Dict[str, Any] = field(default_factory=dict)  # template, symbolic variables, stubs (for evidence)
    per_path_timeout: float = 60.0
    expect_refuted: bool = False  # reachability twin: must come back refuted

    def part_list(self) -> List[Dict[str, Any]]:
        return self.parts if self.parts else [{}]


REGISTRY: Dict[str, List[Job]] = {}


def register(job: Job) -> Job:
    lst = REGISTRY.setdefault(job.prop, [])
    if any(j.name == job.name for j in lst):
        raise ValueError("duplicate job %s/%s" % (job.prop, job.name))
    lst.append(job)
    return job


def jobs_for(prop: str, tier: str) -> List[Job]:
    load_all()
    out = []
    for j in REGISTRY.get(prop, []):
        if tier == "thorough" or j.tier == "quick":
            out.append(j)
    return out


_loaded = False


def load_all() -> None:
    global _loaded
    if _loaded:
        return
    _loaded = True
    import importlib
    import pkgutil

    from . import props

    for m in pkgutil.iter_modules(props.__path__):
        importlib.import_module("vf.props." + m.name)
