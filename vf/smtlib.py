"""AST-derived SMT-LIB string queries (unbounded string length), decided by two solver binaries.

The file-name scheme of FileSystemArtifactStore and the node-id scheme of get_node_id are read off the
current source (ast), translated to SMT-LIB2 string terms, and the negated property is handed to
/usr/bin/z3 (4.8.12) and cvc5 (1.0.3).  unsat from both = holds for ids of ANY length; sat = a concrete
aliasing pair (replayed by the caller); anything else (unknown, timeout, '(error', disagreement, source shape
not recognised) = inconclusive."""
from __future__ import annotations

import ast
import inspect
import os
import re
import subprocess
import tempfile
import textwrap
from typing import Any, Dict, List, Optional, Tuple


class NotDerivable(Exception):
    pass


def _joined_parts(node: ast.JoinedStr) -> List[Tuple[str, str]]:
    out: List[Tuple[str, str]] = []
    for v in node.values:
        if isinstance(v, ast.Constant) and isinstance(v.value, str):
            out.append(("lit", v.value))
        elif isinstance(v, ast.FormattedValue):
            out.append(("var", ast.unparse(v.value)))
        else:
            raise NotDerivable("unexpected f-string part")
    return out


def derive_fs_scheme() -> Dict[str, Any]:
    """{'save': parts of the saved file name, 'lookup': ('glob', parts) | ('exact', parts)}"""
    import ml_pipeline_engine.artifact_store.store.filesystem as fsmod

    src = textwrap.dedent(inspect.getsource(fsmod.FileSystemArtifactStore))
    tree = ast.parse(src)
    fns = {n.name: n for n in ast.walk(tree) if isinstance(n, (ast.FunctionDef, ast.AsyncFunctionDef))}
    if "save" not in fns or "_get_glob" not in fns:
        raise NotDerivable("save/_get_glob not found")
    save_fs = [n for n in ast.walk(fns["save"]) if isinstance(n, ast.JoinedStr)
               and any(p == ("var", "node_id") for p in _joined_parts(n)) and "already exists" not in ast.unparse(n)]
    if len(save_fs) != 1:
        raise NotDerivable("file-name f-string of save not unique (%d)" % len(save_fs))
    save_parts = _joined_parts(save_fs[0])
    g = fns["_get_glob"]
    glob_calls = [n for n in ast.walk(g) if isinstance(n, ast.Call) and isinstance(n.func, ast.Attribute) and n.func.attr == "glob"]
    look_fs = [n for n in ast.walk(g) if isinstance(n, ast.JoinedStr)]
    if len(look_fs) != 1:
        raise NotDerivable("lookup f-string of _get_glob not unique (%d)" % len(look_fs))
    kind = "glob" if glob_calls else "exact"
    if kind == "exact" and not any(isinstance(n, ast.Attribute) and n.attr == "exists" for n in ast.walk(g)):
        raise NotDerivable("lookup is neither a glob nor an exists() test")
    return {"save": save_parts, "lookup": (kind, _joined_parts(look_fs[0]))}


def _term(parts: List[Tuple[str, str]], env: Dict[str, str]) -> str:
    ts = []
    for k, v in parts:
        if k == "lit":
            ts.append('"%s"' % v.replace('"', '""'))
        else:
            if v not in env:
                raise NotDerivable("unknown f-string variable %s" % v)
            ts.append(env[v])
    return ts[0] if len(ts) == 1 else "(str.++ %s)" % " ".join(ts)


def fs_alias_query(scheme: Dict[str, Any], formats: List[str]) -> str:
    """sat iff two DISTINCT metacharacter-free ids alias: the file saved for id1 is found by the lookup for id2."""
    fm = " ".join('(= {0} "%s")' % f for f in formats)
    lines = ["(set-logic QF_SLIA)", "(declare-const k1 String)", "(declare-const k2 String)",
             "(declare-const f1 String)", "(declare-const f2 String)",
             "(assert (or %s))" % fm.format("f1"), "(assert (or %s))" % fm.format("f2"),
             "(assert (not (= k1 k2)))", "(assert (>= (str.len k1) 1))", "(assert (>= (str.len k2) 1))"]
    for k in ("k1", "k2"):
        for ch in "/*?[":
            lines.append('(assert (not (str.contains %s "%s")))' % (k, ch))
    saved = _term(scheme["save"], {"node_id": "k1", "fmt.value": "f1"})
    kind, lparts = scheme["lookup"]
    if kind == "exact":
        looked = _term(lparts, {"node_id": "k2", "fmt.value": "f2"})
        lines.append("(assert (= %s %s))" % (saved, looked))
    else:
        # fnmatch pattern of a metacharacter-free id: literal parts, '*' = any string
        regs = []
        for kd, v in lparts:
            if kd == "var":
                if v != "node_id":
                    raise NotDerivable("glob pattern variable %s" % v)
                regs.append("(str.to_re k2)")
            else:
                for piece in re.split(r"(\*)", v):
                    if piece == "*":
                        regs.append("(re.* re.allchar)")
                    elif piece:
                        regs.append('(str.to_re "%s")' % piece)
        lines.append("(assert (str.in_re %s (re.++ %s)))" % (saved, " ".join(regs)))
    lines += ["(check-sat)"]
    return "\n".join(lines) + "\n"


def derive_node_id() -> Tuple[str, List[str]]:
    """separator and order of components of get_node_id's final join, read off the source."""
    from ml_pipeline_engine.node import node as nodemod

    tree = ast.parse(textwrap.dedent(inspect.getsource(nodemod.get_node_id)))
    rets = [n for n in ast.walk(tree) if isinstance(n, ast.Return)]
    if len(rets) != 1:
        raise NotDerivable("get_node_id has %d returns" % len(rets))
    r = rets[0].value
    if not (isinstance(r, ast.Call) and isinstance(r.func, ast.Attribute) and r.func.attr == "join"
            and isinstance(r.func.value, ast.Constant) and isinstance(r.args[0], ast.List)):
        raise NotDerivable("return is not '<sep>'.join([...])")
    comps = [ast.unparse(e) for e in r.args[0].elts]
    return r.func.value.value, comps


def node_id_query(sep: str, comps: List[str]) -> str:
    """sat iff two distinct well-formed (type, name) pairs give the same id."""
    if comps != ["node_type", "node_name"]:
        raise NotDerivable("unexpected components %s" % comps)
    L = ["(set-logic QF_SLIA)"]
    for v in ("t1", "n1", "t2", "n2"):
        L.append("(declare-const %s String)" % v)
        L.append("(assert (>= (str.len %s) 1))" % v)
        L.append('(assert (not (str.contains %s "__")))' % v)
        L.append('(assert (not (str.prefixof "_" %s)))' % v)
        L.append('(assert (not (str.suffixof "_" %s)))' % v)
    L.append("(assert (or (not (= t1 t2)) (not (= n1 n2))))")
    L.append('(assert (= (str.++ t1 "%s" n1) (str.++ t2 "%s" n2)))' % (sep, sep))
    L += ["(check-sat)"]
    return "\n".join(L) + "\n"


def run_solvers(smt: str, timeout_s: int = 60) -> Dict[str, str]:
    res: Dict[str, str] = {}
    with tempfile.NamedTemporaryFile("w", suffix=".smt2", delete=False) as f:
        f.write(smt)
        path = f.name
    try:
        for name, cmd in (("z3-4.8.12", ["/usr/bin/z3", "-T:%d" % timeout_s, path]),
                          ("z3-5.1.0", ["z3-new", "-T:%d" % timeout_s, path]),
                          ("cvc5-1.0", ["cvc5", "--strings-exp", "--tlimit=%d" % (timeout_s * 1000), "--produce-models", path])):
            try:
                p = subprocess.run(cmd, capture_output=True, text=True, timeout=timeout_s + 10)
                out = (p.stdout + p.stderr).strip()
            except Exception as e:  # noqa: BLE001
                out = "error: %r" % (e,)
            first = out.splitlines()[0].strip() if out else "empty"
            if "(error" in out or first not in ("sat", "unsat"):
                first = "inconclusive:" + first[:60]
            res[name] = first
            res[name + ".out"] = out[:400]
    finally:
        os.unlink(path)
    return res


def verdict(res: Dict[str, str]) -> str:
    """Definite only when at least two solvers answer and all definite answers agree; a timeout of one solver is
    tolerated when two others agree."""
    vals = [v for k, v in res.items() if not k.endswith(".out")]
    definite = [v for v in vals if v in ("sat", "unsat")]
    if any("(error" in res.get(k + ".out", "") for k in res if not k.endswith(".out")):
        return "inconclusive"
    if len(definite) >= 2 and len(set(definite)) == 1:
        return definite[0]
    return "inconclusive"


def model_of(smt: str, names: List[str], timeout_s: int = 60) -> Dict[str, str]:
    """Values of the named constants from z3 (only called after a sat verdict)."""
    q = smt.replace("(check-sat)", "(check-sat)\n(get-value (%s))" % " ".join(names))
    with tempfile.NamedTemporaryFile("w", suffix=".smt2", delete=False) as f:
        f.write(q)
        path = f.name
    try:
        p = subprocess.run(["z3-new", "-T:%d" % timeout_s, path], capture_output=True, text=True, timeout=timeout_s + 10)
    finally:
        os.unlink(path)
    out: Dict[str, str] = {}
    for m in re.finditer(r'\((\w+) "((?:[^"]|"")*)"\)', p.stdout):
        out[m.group(1)] = m.group(2).replace('""', '"')
    return out
