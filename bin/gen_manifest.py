#!/usr/bin/env python3
"""Regenerates /verif/MANIFEST.json from the per-property table below."""
import json, os

VERIF = os.path.dirname(os.path.dirname(os.path.abspath(__file__)))
ENGINE_NOTE = ("Trusted base: CrossHair 0.0.110 path exploration + z3 5.1.0; the virtual event loop stub (integer clock, "
               "selector, run_in_executor) and the generated node bodies; networkx/build_dag executed natively on concrete "
               "graphs; per-path concrete re-run of the witness must agree with the symbolic run. Bounded: the listed "
               "templates/families and variable ranges only; real thread/process timing is outside the claim.")
TECH_ENGINE = "CrossHair/z3 symbolic execution of the real engine on a virtual asyncio loop (symbolic durations, failures, labels, inputs), all paths exhausted"
P = {
 "C01": ("outcome == reference dataflow interpreter on the same symbolic variables (z3 validity per path) and == outcome under the canonical schedule, for every completion order of the catalogue templates", "DESIGN §2 C01", TECH_ENGINE + "; differential vs reference interpreter and vs zero-duration schedule"),
 "C02": ("exact 'stuck' verdict (idle loop, nothing scheduled, run pending) absent on every explored path, with node failures, None/falsy results, unknown labels, deep one-of failures and k-th collaborator call raising as symbolic inputs", "DESIGN §2 C02", TECH_ENGINE + "; Deadlock/Livelock verdict of the virtual loop"),
 "C03": ("every body invocation's kwargs equal the reference values of its declared inputs (symbolic equality), name sets equal, input node gets exactly the caller's dict, body starts after its producers ended", "DESIGN §2 C03", TECH_ENGINE + "; per-invocation argument comparison against the reference interpreter"),
 "C04": ("per node, engine invocation count <= reference count (== on success) on every path; nothing un-demanded runs", "DESIGN §2 C04", TECH_ENGINE + "; invocation log vs reference demand set"),
 "C05": ("nothing but a node's BaseException escapes run; result.error is an exception object raised by a required failing node in this run or the documented one-of/recurrent error exactly when the reference exhausts alternatives", "DESIGN §2 C05", TECH_ENGINE + "; error identity vs reference root-cause set"),
 "C06": ("for every program of the plain-Input family (symbolic binding selectors) and every held depth/mode assignment, all nodes of the held depth have started at quiescence", "DESIGN §2 C06", "CrossHair/z3 case split over program selectors + symbolic execution of the engine with nodes of one depth held open on the virtual loop"),
 "C07": ("k-th run on a shared chart == same behaviour on a freshly built chart (outcome, invocations, kwargs), DAG graph/node_map/input_kwargs snapshots unchanged, for symbolic per-run inputs and failures", "DESIGN §2 C07", "CrossHair/z3 symbolic execution of run histories on one chart, differential against a fresh chart"),
 "C08": ("each of two overlapping runs on one virtual loop == its solo outcome, for all interleavings of their node completions (symbolic durations), failures and a cancellation of the other run", "DESIGN §2 C08", "CrossHair/z3 symbolic execution of two overlapping runs on one virtual loop, differential against solo runs"),
 "C09": ("only the selected case's private nodes execute in every epoch, consumer receives the selected case's value, shared case executed once, unknown label ends in an error result (no hang)", "DESIGN §2 C09", TECH_ENGINE + "; symbolic switch labels incl. unknown"),
 "C10": ("consumer receives the reference winner's value, later candidates never start, candidate i+1 starts after candidate i failed, contained failures never surface, all-fail gives OneOfDoesNotHaveResultError, no hang", "DESIGN §2 C10", TECH_ENGINE + "; symbolic failing subsets at depth 1-4, None/falsy candidates"),
 "C11": ("per epoch the re-executed set, the start node's additional_data and the destination consumers' arguments equal the reference for every requested iteration count 0..max+1", "DESIGN §2 C11", TECH_ENGINE + "; symbolic iteration count requested by the destination"),
 "C12": ("unit harness drives the real __execute_node: invocation count, same kwargs per attempt, virtual time between attempts == delay, get_default arguments, final value/exception identity equal a 10-line reference for all configurations and per-attempt outcomes", "DESIGN §2 C12", "CrossHair/z3 symbolic execution of DAGRunConcurrentManager.__execute_node on the virtual loop (symbolic config, outcomes, delay, argument) + engine jobs"),
 "C13": ("cancellation injected at a symbolic loop iteration (every step of the run): canceller sees CancelledError only, all tasks done after a bounded drain, no body/event/save starts after the run ended", "DESIGN §2 C13", TECH_ENGINE + "; symbolic cancellation instant, post-run drain of the virtual loop"),
 "C14": ("event log grammar (pipeline start first/once, complete last/once with the returned result, per node start then one complete per attempt, last error None iff value produced, no consumer before producer's successful complete) on every path", "DESIGN §2 C14", TECH_ENGINE + "; recording event manager, log grammar check"),
 "C15": ("built graph == relation computed from the declarations for every program of the family (symbolic mark kinds and bindings), every parameter delivered under its name, parameter-order independent; node-id functions injective on symbolic strings", "DESIGN §2 C15", "z3 case split (CrossHair) over declaration selectors with native build_dag per case + CrossHair symbolic-string execution of get_node_id/generate_node_id"),
 "C16": ("for every defect kind x placement the exact error class is raised and no DAG returned; defect-free programs build", "DESIGN §2 C16", "z3 case split (CrossHair) over defect kind x placement with native build_dag/build_node per case"),
 "C17": ("same outcome under every assignment of {coroutine, inline, thread, process} as under all-coroutine and as the reference; a needed pool that is missing/shut down gives an error result with no body start logged", "DESIGN §2 C17", TECH_ENGINE + "; symbolic mode per node and registry state per pool (executor stub, not real pools)"),
 "C18": ("real save/load on an in-memory pathlib stand-in behave like a write-once dict for all histories of <= 3 operations over two symbolic node ids (dots, glob metacharacters), both formats, two contexts", "DESIGN §2 C18", "CrossHair/z3 symbolic-string execution of FileSystemArtifactStore.save/load over an in-memory Path stand-in, dict oracle"),
 "C19": ("on successful paths the recording write-once store saw each executed node's final value exactly once, never a Recurrent marker or an exception; AlreadyExists never fails a reference-successful run", "DESIGN §2 C19", TECH_ENGINE + "; recording write-once artifact store"),
 "C20": ("GraphConfigImpl.generate on every DAG of the family: one entry per node, virtual/typed correctly, one edge entry per dependency with unique id, type table complete, JSON-serialisable, DAG unchanged; Edge.id injective on symbolic strings", "DESIGN §2 C20", "z3 case split (CrossHair) over declaration selectors with native generate() per case + CrossHair symbolic-string execution of schema.Edge"),
}
NOTES = {
 "C15": "Builder family: the solver's role is the exhaustive case split over finite selector domains; build_dag itself runs natively per case (networkx cannot be traced). Naming jobs are genuinely symbolic (strings len<=3). Precondition: well-formed names (no '__', no leading/trailing '_', not a reserved prefix).",
 "C16": "Finite case split by z3; build_dag/build_node run natively per case.",
 "C20": "As C15; importlib_resources/distutils stubbed so the viewer module imports.",
 "C17": ENGINE_NOTE + " Real ThreadPoolExecutor/ProcessPoolExecutor, pickling and uncontrolled timing are NOT covered (executor stub).",
 "C18": "Trusted base: CrossHair/z3 string reasoning; the in-memory Path stand-in (validated against real pathlib on a fixed corpus at every run); values concretised to three samples.",
}
checks = []
for pid in sorted(P):
    text, ref, tech = P[pid]
    checks.append({
        "property_id": pid,
        "quick_cmd": "bin/check %s --tier quick" % pid,
        "thorough_cmd": "bin/check %s --tier thorough" % pid,
        "evidence_file": "/verif/evidence/%s.json" % pid,
        "replay_cmd_template": "bin/check %s --replay {path}" % pid,
        "engine": "vf",
        "level_claimed": {"category": "model_checking", "text": "Bounded, solver-decided: " + text +
                          ". Holds for ALL values of the listed symbolic variables within the stated bounds when the job's "
                          "search tree is exhausted (reported per job); says nothing outside the bounds.", "design_ref": ref},
        "level_note": NOTES.get(pid, ENGINE_NOTE),
        "technique": tech,
    })
m = {
 "version": 1,
 "setup_cmd": "bin/setup",
 "hooks": {"guard": "ML_PIPELINE_ENGINE_VERIF", "enable": "no source hooks are needed: checks use public seams (DAG.run_manager, chart.artifact_store, chart.event_managers, pool registries); bin/check exports ML_PIPELINE_ENGINE_VERIF=1 for uniformity",
           "baseline_off_cmd": "cd /repo && /venv/bin/python -m pytest -ra -q -p no:cacheprovider --timeout=900 --continue-on-collection-errors",
           "source_commits": [], "add_only": True},
 "engines": [{"name": "vf", "path": "/verif/vf", "serves_properties": sorted(P),
              "kind_free_text": "lean CrossHair (z3) driver exploring all paths of harness + real ml_pipeline_engine code on a virtual asyncio event loop; reference dataflow interpreter and differential oracles"}],
 "checks": checks,
 "not_applicable": [],
 "notes": "All 20 properties are decided by solver-based symbolic execution of the real code (CrossHair/z3). Clauses outside reach (real thread/process pools in C17, process-wide pool registries in C08, arbitrary picklable values in C18) are stated in evidence assumptions and DESIGN §3, not claimed. Known findings: /verif/known_findings.json. Fixes: 'fix:' commits in /repo, listed in known_findings.json under 'fixed'.",
}
json.dump(m, open(os.path.join(VERIF, "MANIFEST.json"), "w"), indent=1)
print("MANIFEST.json written with", len(checks), "checks")
