#!/usr/bin/env python3
"""seeded/RESULTS.md + meta.json['detected_by'] from eval_mutants summaries (later files override earlier ones)."""
import json, os, re, sys

VERIF = os.path.dirname(os.path.dirname(os.path.abspath(__file__)))
runs = {}
for f in sys.argv[1:]:
    for line in open(f, errors="replace"):
        m = re.match(r"^((?:R[2345]-)?C\d+-m\d+) (C\d+) rc=(\d+)\s*(.*)$", line.rstrip())
        if m:
            runs.setdefault(m.group(1), {})[m.group(2)] = (int(m.group(3)), m.group(4).strip())
rows = []
for mid in sorted(os.listdir(os.path.join(VERIF, "seeded"))):
    d = os.path.join(VERIF, "seeded", mid)
    mp = os.path.join(d, "meta.json")
    if not os.path.isfile(mp):
        continue
    meta = json.load(open(mp))
    r = runs.get(mid, {})
    det = [{"check": p, "verdict": lab} for p, (rc, lab) in sorted(r.items()) if rc == 1]
    herr = [p for p, (rc, lab) in sorted(r.items()) if rc == 2]
    meta["detected_by"] = det
    meta["checks_run"] = sorted(r.keys())
    conf = meta.get("confirmed_on_repaired_tree", {})
    status = "caught" if det else ("harness-error" if herr else ("neutralised by fix" if conf and not conf.get("ok") else ("MISSED" if r else "not run")))
    meta["status"] = status
    json.dump(meta, open(mp, "w"), indent=1)
    what = ""
    try:
        notes = open(os.path.join(d, "notes.md")).read()
        m2 = re.search(r"(?im)^#+\s*(.+)$", notes)
        what = (m2.group(1) if m2 else notes.strip().splitlines()[0])[:90]
    except Exception:
        pass
    rows.append((mid, meta["breaks_property"], status, "; ".join("%s: %s" % (x["check"], x["verdict"][:80]) for x in det) or "-",
                 ",".join(sorted(r.keys())) or "-", what))
with open(os.path.join(VERIF, "seeded", "RESULTS.md"), "w") as f:
    f.write("# Seeded changes vs checks (quick tier, repaired tree)\n\n")
    f.write("status: caught = some check exited 1 with a reproduced counterexample; neutralised by fix = the change no longer "
            "manifests on the repaired tree (its demonstration passes with and without it) because a `fix:` commit removed "
            "the mechanism it relied on; MISSED = no check that was run reports it.\n\n")
    f.write("| id | property | status | reported by (job, label) | checks run | what |\n|---|---|---|---|---|---|\n")
    for r in rows:
        f.write("| %s | %s | %s | %s | %s | %s |\n" % r)
    n = len(rows)
    c = sum(1 for r in rows if r[2] == "caught")
    f.write("\n%d changes: %d caught, %d neutralised by a fix, %d missed, %d other.\n" % (
        n, c, sum(1 for r in rows if r[2].startswith("neutralised")), sum(1 for r in rows if r[2] == "MISSED"),
        sum(1 for r in rows if r[2] not in ("caught", "MISSED") and not r[2].startswith("neutralised"))))
print("RESULTS.md written:", len(rows), "rows")
