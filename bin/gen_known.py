#!/usr/bin/env python3
"""Builds /verif/known_findings.json from the table below + witnesses taken from a directory of
VERIF_CONTINUE logs (bin/run_all).  Run by hand when the table changes; never at check time."""
import ast, json, os, re, subprocess, sys

VERIF = os.path.dirname(os.path.dirname(os.path.abspath(__file__)))
LOGS = sys.argv[1] if len(sys.argv) > 1 else "/tmp/fixed4"

REC_EAGER = ("recurrent re-iteration runs every switch case / one-of candidate of the subgraph eagerly (the recurrent "
             "subgraph is built from the unfiltered graph, manager._run_recurrent_subgraph): non-selected cases and later "
             "candidates are executed on re-iteration and their failures fail the run")
OUTSIDE = ("a node outside a recurrent subgraph that reads a node inside it is started with the value of a superseded "
           "iteration (or, depending on when its other inputs finish, the final one): readiness is re-checked only on "
           "notifications and results of earlier iterations stay readable (with_hidden=True)")
SW_ONEOF = ("a switch inside a one-of candidate: the selected case runs in its own sub-pipeline that is not part of the "
            "candidate's subgraph, so its failure is invisible to the candidate: the consumer is invoked with the exception "
            "object as its argument (or, when the failure is above the case node, waits forever)")
COLLAPSE = ("two parameters of one node bound to the same source node collapse into one graph edge (nx.DiGraph, single "
            "kwarg_name attribute): one declared parameter is silently not delivered")
SAVE_EPOCH = ("the artifact store is handed a node's value in every iteration of a recurrent subgraph (TODO 'saving policy' "
              "in manager._run_node): with a write-once store the second save raises and an otherwise correct pipeline fails")
SAVE_DUP = ("a node requested by two scopes in the same loop step is executed once but its result is stored and saved "
            "twice (late-arriving duplicate request path of _execute_node feeding _run_node): a write-once store fails the run")

NESTED_LOSER = ("a failure kept inside a resolved inner one-of (its losing candidate) is still seen by __has_subgraph_error "
                "when a later candidate of an outer one-of reaches the inner one-of's consumer: the later candidate is "
                "declared failed although its sub-pipeline is healthy")
SAVE_PENDING = ("a node's result is published (set_node_result) before its artifact save has finished: a notification from "
                "a sibling lets run() return as soon as the output result exists and the still pending save of the output "
                "node is cancelled, so a successful run ends without that artifact")

CANCELLED_NEEDED = ("when a one-of candidate fails, the tasks its sub-pipeline started are cancelled; a cancelled node stays "
                    "marked as processed without a result, so the next candidate, if it needs that node too, skips it and "
                    "waits for its result forever")

W1 = "v['r.D.want'] >= 1"
SWX = "fails(v, 'X', 'Y')"
T = []


def add(prop, job, kinds, where, what):
    for k in kinds:
        T.append((prop, job, k, where, what))


EAGER4 = ["executed_undemanded:X", "executed_undemanded:Y", "executed_more:X:2>1", "executed_more:Y:2>1"]
# C01
add("C01", "rec_with_switch", ["unexpected_error:NodeErr1"], W1 + " and fails(v, 'X')", REC_EAGER)
add("C01", "rec_with_oneof", ["unexpected_error:NodeErr1", "wrong_cause:NodeErr1"], W1 + " and fails(v, 'C1', 'C2')", REC_EAGER)
add("C01", "r2_oneof_with_switch", ["wrong_value"], SWX, SW_ONEOF)
add("C01", "rec_outside_reader_slow", ["schedule_dependent_value"], W1, OUTSIDE)
add("C01", "rec_two_scopes", ["schedule_dependent_value"], W1, OUTSIDE)
# C02
add("C02", "oneof_with_switch_deep", ["deadlock"], "v['r.S.label0'] == 0 and v['r.X0.kind0'] == 1", SW_ONEOF)
add("C02", "oneof_diamond_shared", ["deadlock"], "v['r.F.kind0'] == 1 and v['r.S.dur'] > v['r.F.dur']", CANCELLED_NEEDED)
# C03
add("C03", "oneof_with_switch", ["bad_arg_type:C1.v:NodeErr1"], SWX, SW_ONEOF)
add("C03", "rec_outside_reader", ["arg:R.m"], W1, OUTSIDE)
add("C03", "rec_two_scopes", ["arg:W.s", "arg:X.d"], W1, OUTSIDE)
# C04
add("C04", "rec_with_switch", EAGER4, W1, REC_EAGER)
# C09
add("C09", "rec_with_switch", EAGER4, W1, REC_EAGER)
add("C09", "rec_with_switch", ["unexpected_error:NodeErr1"], W1 + " and fails(v, 'X')", REC_EAGER)
add("C09", "oneof_with_switch", ["bad_arg_type:C1.v:NodeErr1", "executed_undemanded:C1", "wrong_value"], SWX, SW_ONEOF)
# C10
add("C10", "oneof_with_switch", ["bad_arg_type:C1.v:NodeErr1", "executed_undemanded:C1", "wrong_value"], SWX, SW_ONEOF)
add("C10", "oneof_with_switch_deep", ["bad_arg_type:C1.v:NodeErr1", "executed_undemanded:C1", "wrong_value"], "fails(v, 'Y')", SW_ONEOF)
add("C10", "oneof_with_switch_deep", ["deadlock"], "v['r.S.label0'] == 0 and v['r.X0.kind0'] == 1", SW_ONEOF)
add("C10", "oneof_reached_twice", ["unexpected_error:OneOfDoesNotHaveResultError", "error_on_computable_run:OneOfDoesNotHaveResultError"],
    "fails(v, 'C1') and fails(v, 'P')", NESTED_LOSER)
add("C10", "oneof_diamond_shared", ["deadlock"], "v['r.F.kind0'] == 1 and v['r.S.dur'] > v['r.F.dur']", CANCELLED_NEEDED)
# C11
add("C11", "rec_with_switch", EAGER4, W1, REC_EAGER)
add("C11", "rec_with_switch", ["unexpected_error:NodeErr1"], W1 + " and fails(v, 'X')", REC_EAGER)
add("C11", "rec_with_oneof", ["unexpected_error:NodeErr1", "wrong_cause:NodeErr1"], W1 + " and fails(v, 'C1', 'C2')", REC_EAGER)
add("C11", "rec_with_oneof", ["executed_undemanded:C2", "executed_more:C2:2>1"], W1, REC_EAGER)
add("C11", "rec_two_scopes", ["arg:W.s", "arg:X.d", "wrong_value"], W1, OUTSIDE)
LEAK = ("a node that is a one-of candidate and also a plain Input of another node: its failure is kept as a value inside "
        "the one-of subgraph (contained), and that stored exception object is then delivered to the plain consumer as its "
        "argument; the run returns a value although a required node failed")
add("C03", "r3_oneof_candidate_also_input", ["bad_arg_type:Rp.shared:NodeErr1"], "fails(v, 'Sh')", LEAK)
add("C10", "r3_oneof_candidate_also_input", ["bad_arg_type:Rp.shared:NodeErr1", "executed_undemanded:Rp", "missing_error",
                                             "value_returned_though_required_node_failed"], "fails(v, 'Sh')", LEAK)
add("C03", "r3_rec_with_switch_inner", ["arg:C.v"], W1, REC_EAGER)
add("C04", "r3_rec_with_oneof", ["executed_more:C2:2>1", "executed_undemanded:C2"], W1, REC_EAGER)
for _p in ("C09", "C11"):
    add(_p, "r3_rec_with_switch_inner", ["arg:C.v", "executed_more:X:2>1", "executed_undemanded:X", "wrong_value"], W1, REC_EAGER)
# C15
add("C15", "family_n5", ["parameter_dropped_or_merged:f4:declared=x,y:delivered=y"],
    "(v['n4_kind'] == 0 and v['n4_second'] - 1 == v['n4_src']) or "
    "(v['n4_kind'] == 3 and v['n4_second'] - 1 == [1, 2, 3, 2, 3, 3][v['n4_rec']])", COLLAPSE)
# C19
for j in ("rec_simple", "rec_simple_default", "rec_inner_start"):
    add("C19", j, ["write_once_store_failed_correct_pipeline:processor__S"], W1, SAVE_EPOCH)
add("C19", "switch_shared_case", ["write_once_store_failed_correct_pipeline:processor__X"], "v['r.S.label0'] == 0", SAVE_DUP)
add("C19", "slow_collab_rhombus", ["not_saved:D"], "v['save_dur'] >= 1", SAVE_PENDING)
add("C19", "slow_collab_oneof_diamond_shared", ["not_saved:S", "not_saved:O"], "v['save_dur'] >= 1", SAVE_PENDING)

FIXED = [
 ("C05", "do not read Task.exception()", "CancelledError escaped from chart.run when a failing one-of branch cancelled pending sibling tasks (oneof_diamond: F fails while S is in flight)"),
 ("C02", "wake the consumers of a switch", "run hung when the selected switch case had already been executed for another consumer (switch_case_also_input, label l1)"),
 ("C09", "fail the run when a switch label", "a switch label without a case left a dead task and the run hung (switch_unknown / switch_deep_unknown, label index 2)"),
 ("C02", "a OneOf candidate returning None", "a one-of candidate returning None was never noticed and the run hung (oneof_none, kind None)"),
 ("C10", "wake the OneOf waiter", "a failure three or more dependency steps above a one-of candidate hung the run (oneof_depth3, P0 fails)"),
 ("C07", "do not write additional_data", "the caller's input_kwargs dict gained an additional_data key (rec_simple, want >= 1)"),
 ("C07", "keep additional_data of a recurrent", "additional_data of a recurrent iteration stayed on the shared DAG.graph and leaked into the next run / overlapping runs (recurrent, want >= 1)"),
 ("C07", "activate OneOf candidates per run", "is_oneof_child was cleared on the shared DAG.graph: from the second run on tried candidates ran eagerly (oneof_fallback)"),
 ("C18", "save JSON artifacts in text mode", "save(fmt=JSON) raised TypeError and left an empty file that made the key look saved"),
 ("C18", "look artifacts up by exact file name", "glob('<id>.*') aliased ids ('a' vs 'a.b'), treated id characters as wildcards and raised ValueError for '**'"),
 ("C20", "viewer config accepts", "viewer config raised ValueError for user-defined node types (family_custom_type)"),
 ("C10", "wake the consumers of a recurrent subgraph", "a node failing in an iteration of a recurrent subgraph inside a one-of candidate, two or more steps away from the destination of the subgraph (or the exhaustion of a nested subgraph), left the one-of waiting forever (r3_rec_in_oneof_chain: M fails on its second invocation; r3_rec_nested_in_oneof)"),
 ("C19", "do not save Recurrent markers", "Recurrent markers and contained one-of failures were saved as node artifacts (rec_simple: saved_recurrent_marker; oneof_basic: saved_failure)"),
]


def witness_for(prop, job, kind):
    path = os.path.join(LOGS, prop + ".txt")
    pat = re.compile(r"REFUTED %s\[\d+\] label=%s witness=(\{.*\})\s*$" % (re.escape(job), re.escape(kind)))
    try:
        for line in open(path, errors="replace"):
            m = pat.search(line.rstrip("\n"))
            if m:
                return ast.literal_eval(m.group(1))
    except FileNotFoundError:
        pass
    return None


def main():
    findings, missing = [], []
    for i, (prop, job, kind, where, what) in enumerate(T):
        w = witness_for(prop, job, kind)
        if w is None:
            missing.append((prop, job, kind))
            continue
        findings.append({"id": "KF-%s-%s-%d" % (prop, job, i), "property": prop, "job": job, "kind": kind,
                         "where": where, "witness": w, "what": what})
    log = subprocess.check_output(["git", "-C", "/repo", "log", "--format=%h %s"]).decode().splitlines()
    fixed = []
    for prop, subject, what in FIXED:
        commit = next(l.split()[0] for l in log if subject in l)
        fixed.append("fixed: property=%s %s %s" % (prop, commit, what))
    out = {"_comment": "Genuine defects of ml-pipeline-engine that the checks reproduce and that were recorded rather than "
                       "repaired (findings), and the repaired ones (fixed; these suppress nothing). Never written at run "
                       "time. A finding tolerates exactly one verdict label ('kind') of one job inside the region 'where' "
                       "(a predicate over the job's symbolic variables, evaluated symbolically on every path: v[name] is "
                       "the variable, fails(v, nodes...) = some invocation of one of the nodes raises E1); anything else "
                       "is still reported as a VIOLATION. 'witness' is replayed concretely on every run: the "
                       "KNOWN-FINDING line is printed only while it still fails.",
           "findings": findings, "fixed": fixed}
    json.dump(out, open(os.path.join(VERIF, "known_findings.json"), "w"), indent=1)
    print("wrote %d findings, %d fixed; no witness found for: %s" % (len(findings), len(fixed), missing))


main()
